"""Replay a counterexample on the real, unshimmed geomdl code with plain floats.

  python3-vt -m sx.replay <replay.json>        (or '-' to read the JSON from stdin)

exit 1 = the violation reproduces, 0 = it does not, 3 = the values violate a harness assumption.
The last stdout line is a JSON object.
"""
import json
import os
import sys
import traceback

VERIF = os.path.dirname(os.path.dirname(os.path.abspath(__file__)))


def main(argv=None):
    argv = sys.argv[1:] if argv is None else argv
    src = argv[0] if argv else '-'
    data = json.load(sys.stdin if src == '-' else open(src))
    sys.path.insert(0, VERIF)
    from . import geo
    from .cx import ConcCx, AssumptionFailed
    from .run import load_prop
    geo.mods()
    mod = load_prop(data['property'])
    ins = None
    for tier in ('quick', 'thorough'):
        for i in mod.instances(tier):
            if i.name == data['instance']:
                ins = i
                break
        if ins:
            break
    if ins is None:
        print(json.dumps({'reproduced': False, 'error': 'instance not found: %s' % data['instance']}))
        return 0
    cx = ConcCx(data.get('values') or {})
    out = {'reproduced': False}
    try:
        ins.fn(cx, **ins.params)
    except AssumptionFailed as e:
        out['error'] = 'assumption failed in float replay: %s' % e
        print(json.dumps(out))
        return 3
    except Exception as e:
        tb = traceback.extract_tb(e.__traceback__)
        where = ' <- '.join('%s:%d' % (f.filename.split('/')[-1], f.lineno) for f in tb[-3:])
        if not any('/geomdl/' in f.filename for f in tb):
            out['error'] = 'harness exception in float replay: %s: %s at %s' % (type(e).__name__, str(e)[:200], where)
            print(json.dumps(out))
            return 3
        cx.failed.append(('no-exception', '%s: %s at %s' % (type(e).__name__, str(e)[:200], where)))
    out['checked'] = cx.checked
    out['failed'] = [[n, d] for n, d in cx.failed[:8]]
    out['n_failed'] = len(cx.failed)
    out['reproduced'] = bool(cx.failed)
    for n, d in cx.failed[:8]:
        print('FAILED %s: %s' % (n, d))
    print(json.dumps(out))
    return 1 if cx.failed else 0


if __name__ == '__main__':
    sys.exit(main())
