"""SX engine: symbolic execution of the real geomdl code through numeric proxies + z3.

See /verif/DESIGN.md section 2.  The harness (a Python function taking a context `cx`) builds
symbolic inputs, calls the real geomdl API and registers obligations; `Engine.explore` re-runs it
once per feasible path (decision-prefix DFS), z3 decides every branch and every obligation.
"""
import builtins
import math as _math
import sys
import time
import traceback
from fractions import Fraction

import z3

from .poly import (Poly, RF, ONE, ZERO, rf_add, rf_mul, rf_inv, rf_neg, rf_diff, rf_subst, signpoly, mono_div)

_float = builtins.float
_print = builtins.print


class PathAbort(BaseException):
    """solver could not decide a branch (unknown) -> the path, and the run, is inconclusive"""


class Concretized(BaseException):
    """the code asked for a concrete value of a symbolic number"""


class Infeasible(BaseException):
    """an assumption contradicts the path condition: the path is dropped (not an error)"""


class InstanceTimeout(BaseException):
    pass


_ENG = None          # engine of the running exploration (None => proxies do pure arithmetic only)


def current_engine():
    return _ENG


# ----------------------------------------------------------------------------------------------
# variables (per process; one instance per worker process)

class VarTable:
    def __init__(self):
        self.names = []
        self.z3v = []
        self.idx = {}
        self.positive = set()
        self.params = set()

    def get(self, name):
        i = self.idx.get(name)
        if i is None:
            i = len(self.names)
            self.idx[name] = i
            self.names.append(name)
            self.z3v.append(z3.Real(name))
        return i


VARS = VarTable()


def reset_vars():
    global VARS
    VARS = VarTable()


def poly_to_z3(p):
    if not p.t:
        return z3.RealVal(0)
    terms = []
    zv = VARS.z3v
    for m, c in p.t.items():
        fs = []
        for vi, k in m:
            v = zv[vi]
            fs.append(v if k == 1 else v ** k)
        if c != 1 or not fs:
            fs.insert(0, z3.RealVal(c) if c.denominator == 1 else z3.Q(c.numerator, c.denominator))
        t = fs[0]
        for f in fs[1:]:
            t = t * f
        terms.append(t)
    return terms[0] if len(terms) == 1 else z3.Sum(terms)


# ----------------------------------------------------------------------------------------------
# proxies

def _lift(x):
    if isinstance(x, SymReal):
        return x.r
    if isinstance(x, bool):
        return RF(Poly.const(int(x)))
    if isinstance(x, int):
        return RF(Poly.const(x))
    if isinstance(x, _float):
        if x != x or x in (_math.inf, -_math.inf):
            return None
        return RF(Poly.const(Fraction(x)))
    if isinstance(x, Fraction):
        return RF(Poly.const(x))
    return NotImplemented


class SymBool:
    """an undecided condition; bool() asks the engine to decide it on the current path"""
    __slots__ = ('e', 'lin', 'vars', 'eqpoly')

    def __init__(self, e, lin, vars_, eqpoly=None):
        self.e = e
        self.lin = lin
        self.vars = vars_
        self.eqpoly = eqpoly       # (op, poly) for linear ==/!= atoms

    def __bool__(self):
        if _ENG is None:
            raise Concretized('symbolic condition outside an exploration')
        return _ENG.decide(self)

    def __invert__(self):
        ep = None
        if self.eqpoly is not None:
            ep = ({'==': '!=', '!=': '=='}[self.eqpoly[0]], self.eqpoly[1])
        return SymBool(z3.Not(self.e), self.lin, self.vars, ep)

    def __and__(self, o):
        o = as_symbool(o)
        return SymBool(z3.And(self.e, o.e), self.lin and o.lin, self.vars | o.vars)

    def __or__(self, o):
        o = as_symbool(o)
        return SymBool(z3.Or(self.e, o.e), self.lin and o.lin, self.vars | o.vars)

    __rand__ = __and__
    __ror__ = __or__

    # arithmetic on conditions, e.g. the idiom  (a > b) - (a < b): decide, then compute with ints
    def __int__(self):
        return int(bool(self))

    def __index__(self):
        return int(bool(self))

    def __sub__(self, o):
        return int(bool(self)) - int(bool(o))

    def __rsub__(self, o):
        return int(bool(o)) - int(bool(self))

    def __add__(self, o):
        return int(bool(self)) + int(bool(o))

    __radd__ = __add__

    def __eq__(self, o):
        if isinstance(o, (bool, int)):
            return bool(self) == bool(o)
        return self is o

    def __hash__(self):
        return id(self)


def as_symbool(c):
    if isinstance(c, SymBool):
        return c
    return SymBool(z3.BoolVal(bool(c)), True, frozenset())


_OPS = {
    '<': lambda c: c < 0, '<=': lambda c: c <= 0, '>': lambda c: c > 0,
    '>=': lambda c: c >= 0, '==': lambda c: c == 0, '!=': lambda c: c != 0,
}


def cmp_poly(p, op):
    """condition  p <op> 0  as bool (constant) or SymBool"""
    if _ENG is not None and _ENG.rewrites:
        p = _ENG.apply_rewrites(p)
    if p.is_const():
        return _OPS[op](p.cval())
    if VARS.positive and len(p.t) > 1:
        # a positive variable dividing every term does not change the sign / zero set: divide it out
        # (keeps  alpha*u + beta <= alpha*k + beta  linear)
        common = None
        for m in p.t:
            cur = {v: k for v, k in m if v in VARS.positive}
            if common is None:
                common = cur
            else:
                common = {v: min(k, cur[v]) for v, k in common.items() if v in cur}
            if not common:
                break
        if common:
            g = tuple(sorted(common.items()))
            p = Poly({mono_div(m, g): c for m, c in p.t.items()})
    z = poly_to_z3(p)
    lin = p.is_linear()
    return SymBool(_OPS[op](z), lin, frozenset(p.vars()), (op, p) if (lin and op in ('==', '!=')) else None)


def _nn(o):
    """syntactic non-negativity tag of an operand"""
    if isinstance(o, SymReal):
        return o.nn
    if isinstance(o, (int, _float, Fraction)) and not isinstance(o, bool):
        return o >= 0
    return False


class SymReal:
    """a real number known as an exact rational function of the symbolic inputs.
    `nn` is a *syntactic* certificate of non-negativity (squares, sums/products/quotients of
    non-negatives): it lets sqrt() skip a domain query for sums of squares."""
    __slots__ = ('r', 'nn')

    def __init__(self, r, nn=False):
        self.r = r
        self.nn = nn

    def __copy__(self):
        return self

    def __deepcopy__(self, memo):
        return self         # immutable value

    @staticmethod
    def const(x):
        x = Fraction(x)
        return SymReal(RF(Poly.const(x)), x >= 0)

    def is_const(self):
        return self.r.is_const()

    def cval(self):
        return self.r.n.cval()

    # arithmetic ------------------------------------------------------------------------------
    def _bin(self, o, f, swap=False, nn=False):
        oz = _lift(o)
        if oz is NotImplemented:
            return NotImplemented
        if oz is None:
            raise Concretized('arithmetic with a non-finite float')
        return SymReal(f(oz, self.r) if swap else f(self.r, oz), nn)

    def __add__(self, o):
        return self._bin(o, rf_add, nn=self.nn and _nn(o))
    __radd__ = __add__

    def __sub__(self, o):
        return self._bin(o, lambda a, b: rf_add(a, b, -1))

    def __rsub__(self, o):
        return self._bin(o, lambda a, b: rf_add(a, b, -1), swap=True)

    def __mul__(self, o):
        return self._bin(o, rf_mul, nn=(o is self) or (self.nn and _nn(o)))
    __rmul__ = __mul__

    def __truediv__(self, o):
        oz = _lift(o)
        if oz is NotImplemented:
            return NotImplemented
        if oz is None:
            return SymReal.const(0)
        _check_div(oz)
        return SymReal(rf_mul(self.r, rf_inv(oz)), self.nn and _nn(o))

    def __rtruediv__(self, o):
        oz = _lift(o)
        if oz is NotImplemented:
            return NotImplemented
        _check_div(self.r)
        return SymReal(rf_mul(oz, rf_inv(self.r)), self.nn and _nn(o))

    def __neg__(self):
        return SymReal(rf_neg(self.r))

    def __pos__(self):
        return self

    def __abs__(self):
        if self.is_const():
            return SymReal.const(abs(self.cval()))
        if self.nn:
            return self
        r = self if bool(self >= 0) else -self
        return SymReal(r.r, True)

    def __pow__(self, n):
        if isinstance(n, SymReal) and n.is_const():
            n = n.cval()
        if isinstance(n, _float) and n == int(n):
            n = int(n)
        if isinstance(n, Fraction) and n.denominator == 1:
            n = int(n)
        if isinstance(n, int):
            if n >= 0:
                r = RF(ONE)
                for _ in range(n):
                    r = rf_mul(r, self.r)
                return SymReal(r, self.nn or n % 2 == 0)
            return 1 / (self ** (-n))
        if n == 0.5 or n == Fraction(1, 2):
            return sym_sqrt(self)
        raise Concretized('unsupported power %r' % (n,))

    def __rpow__(self, b):
        if self.is_const() and self.cval().denominator == 1:
            return SymReal.const(b) ** int(self.cval())
        raise Concretized('symbolic exponent')

    def _constop(self, name):
        if not self.is_const():
            raise Concretized('%s() of a symbolic number' % name)
        return self.cval()

    def __floordiv__(self, o):
        o = o.cval() if isinstance(o, SymReal) and o.is_const() else o
        return SymReal.const(Fraction(self._constop('floordiv')) // Fraction(o))

    def __mod__(self, o):
        o = o.cval() if isinstance(o, SymReal) and o.is_const() else o
        return SymReal.const(Fraction(self._constop('mod')) % Fraction(o))

    def __float__(self):
        return _float(self._constop('float'))

    def __int__(self):
        return int(self._constop('int'))

    def __index__(self):
        c = self._constop('index')
        if c.denominator != 1:
            raise TypeError('non-integral constant used as index')
        return int(c)

    def __floor__(self):
        return _math.floor(self._constop('floor'))

    def __ceil__(self):
        return _math.ceil(self._constop('ceil'))

    def __trunc__(self):
        return _math.trunc(self._constop('trunc'))

    def __round__(self, n=None):
        if n is None:
            return round(self._constop('round'))
        return self     # rounding to n decimals is the identity on reals (DESIGN 2.3)

    # comparisons -----------------------------------------------------------------------------
    def _cmp(self, o, op):
        oz = _lift(o)
        if oz is NotImplemented:
            return NotImplemented
        if oz is None:
            pos = o > 0
            if o != o:
                return op == '!='
            return {'<': pos, '<=': pos, '>': not pos, '>=': not pos, '==': False, '!=': True}[op]
        d = rf_add(self.r, oz, -1)
        if not d.d or _ENG is None:
            return cmp_poly(signpoly(d), op)
        # denominator factors whose sign is already fixed by the (linear) path condition need not be
        # multiplied into the sign polynomial: keeps branch conditions linear (symbolic knots, split maps)
        p = d.n
        flip = False
        for f, k in d.d.items():
            if k % 2:
                sg = _ENG.sign_of_factor(f)
                if sg == 0:
                    p = p * f
                elif sg < 0:
                    flip = not flip
        return cmp_poly(-p if flip else p, op)

    def __lt__(self, o):
        return self._cmp(o, '<')

    def __le__(self, o):
        return self._cmp(o, '<=')

    def __gt__(self, o):
        return self._cmp(o, '>')

    def __ge__(self, o):
        return self._cmp(o, '>=')

    def __eq__(self, o):
        r = self._cmp(o, '==')
        return False if r is NotImplemented else r

    def __ne__(self, o):
        r = self._cmp(o, '!=')
        return True if r is NotImplemented else r

    def __hash__(self):
        return 0

    def __bool__(self):
        return bool(self != 0)

    # printing: every number is printed as a token that the float shim maps back (DESIGN 2.3)
    def __format__(self, spec):
        if spec and spec[-1] in 'dxXob':
            return format(int(self), spec)
        return _token(self)

    def __str__(self):
        return _token(self)

    __repr__ = __str__

    def pretty(self, maxterms=8):
        n = self.r.n.pretty(VARS.names, maxterms)
        if not self.r.d:
            return n
        return '(%s) / %s' % (n, ' '.join('(%s)^%d' % (f.pretty(VARS.names, maxterms), k) for f, k in self.r.d.items()))

    def __deepcopy__(self, memo):
        return self

    def __copy__(self):
        return self

    def __reduce__(self):
        raise Concretized('pickling a symbolic number')


_TOKENS = {}


def _token(s):
    k = '§%d§' % len(_TOKENS)
    _TOKENS[k] = s
    return k


def token_value(text):
    return _TOKENS.get(text.strip()) if isinstance(text, str) else None


def _check_div(r):
    if r.n.is_const():
        if r.n.cval() == 0:
            raise ZeroDivisionError('float division by zero')
        return
    if _ENG is not None:
        _ENG.check_div(r)


def sym_sqrt(x):
    if not isinstance(x, SymReal):
        x = SymReal(_lift(x))
    if x.is_const():
        c = x.cval()
        if c < 0:
            raise ValueError('math domain error')
        a, b = _math.isqrt(c.numerator), _math.isqrt(c.denominator)
        if a * a == c.numerator and b * b == c.denominator:
            return SymReal.const(Fraction(a, b))
    if _ENG is None:
        raise Concretized('sqrt of a symbolic number outside an exploration')
    return _ENG.sqrt(x)


def sym(x):
    """lift a python number to SymReal"""
    if isinstance(x, SymReal):
        return x
    r = _lift(x)
    if r is None or r is NotImplemented:
        raise TypeError('cannot lift %r' % (x,))
    return SymReal(r)


def diff(x, v, k=1):
    """k-th formal partial derivative of SymReal x with respect to variable SymReal v"""
    (m,), = [tuple(v.r.n.t.keys())]
    vi = m[0][0]
    r = sym(x).r
    for _ in range(k):
        r = rf_diff(r, vi)
    return SymReal(r)


def subst(x, v, val):
    """substitute (constant or polynomial-valued) SymReal val for variable v in x"""
    (m,), = [tuple(v.r.n.t.keys())]
    vi = m[0][0]
    val = sym(val)
    if val.r.d:
        raise Concretized('substitution by a non-polynomial')
    return SymReal(rf_subst(sym(x).r, vi, val.r.n))


# ----------------------------------------------------------------------------------------------
# shims installed as module attributes of geomdl modules

class _FloatMeta(type):
    def __instancecheck__(cls, x):
        return isinstance(x, (_float, SymReal))

    def __subclasscheck__(cls, c):
        return issubclass(c, (_float, SymReal))

    def __call__(cls, x=0.0):
        if isinstance(x, SymReal):
            return x
        if isinstance(x, str):
            t = token_value(x)
            if t is not None:
                return t
        v = _float(x)
        if v != v or v in (_math.inf, -_math.inf):
            return v
        if isinstance(x, int):
            return SymReal.const(x)
        return SymReal.const(Fraction(v))


class FloatShim(metaclass=_FloatMeta):
    """stands in for the name `float` inside geomdl modules"""
    @staticmethod
    def fromhex(s):
        return _float.fromhex(s)


class MathShim:
    def __getattr__(self, n):
        f = getattr(_math, n)
        if not callable(f):
            return f

        def g(*a):
            a = [(_float(x) if isinstance(x, SymReal) else x) for x in a]
            return f(*a)
        return g

    def sqrt(self, x):
        if isinstance(x, SymReal) or (isinstance(x, (int, _float)) and _ENG is not None):
            return sym_sqrt(x)
        return _math.sqrt(x)

    def pow(self, x, y):
        if isinstance(x, SymReal) or isinstance(y, SymReal):
            return sym(x) ** y
        return _math.pow(x, y)

    def radians(self, x):
        if isinstance(x, SymReal) and not x.is_const():
            return x          # angles are opaque keys of the cos/sin shim
        return _math.radians(_float(x))

    def cos(self, x):
        if isinstance(x, SymReal) and not x.is_const():
            return _ENG.trig(x)[0]
        return _lift_trig(_math.cos, x)

    def sin(self, x):
        if isinstance(x, SymReal) and not x.is_const():
            return _ENG.trig(x)[1]
        return _lift_trig(_math.sin, x)

    def isclose(self, a, b, rel_tol=1e-09, abs_tol=0.0):
        if not (isinstance(a, SymReal) or isinstance(b, SymReal)):
            return _math.isclose(a, b, rel_tol=rel_tol, abs_tol=abs_tol)
        a, b = sym(a), sym(b)
        if bool(a == b):
            return True
        d = abs(a - b)
        return bool(d <= rel_tol * abs(b)) or bool(d <= rel_tol * abs(a)) or bool(d <= abs_tol)

    def floor(self, x):
        return _math.floor(x)

    def ceil(self, x):
        return _math.ceil(x)

    def fabs(self, x):
        return abs(x)


def _lift_trig(f, x):
    x = _float(x)
    v = f(x)
    return SymReal.const(Fraction(v)) if _ENG is not None else v


_SHIMMED = []


class SymBytes:
    """what struct.pack returns when a value is symbolic: a sequence of units, each either one raw byte
    (int) or a packed number ('num', format char, value).  Supports the concatenations the exporters
    use (bytes + SymBytes, SymBytes + bytes, +=) and len()."""
    __slots__ = ('units',)

    def __init__(self, units):
        self.units = units

    @staticmethod
    def _units(x):
        if isinstance(x, SymBytes):
            return x.units
        if isinstance(x, (bytes, bytearray)):
            return list(x)
        raise TypeError("can't concat %s to bytes" % type(x).__name__)

    def __add__(self, other):
        return SymBytes(self.units + SymBytes._units(other))

    def __radd__(self, other):
        return SymBytes(SymBytes._units(other) + self.units)

    def __len__(self):
        import struct as _st
        return sum(1 if isinstance(u, int) else _st.calcsize('<' + u[1]) for u in self.units)


class StructShim:
    """struct module for the symbolic run: packing concrete numbers is the real struct.pack, packing a
    symbolic number yields SymBytes (exact value, the rounding to binary32 / binary64 is outside the claim)."""

    def __init__(self):
        import struct as _st
        self._st = _st
        self.error = _st.error
        self.calcsize = _st.calcsize
        self.unpack = _st.unpack

    @staticmethod
    def _chars(fmt):
        out, num = [], ''
        for ch in fmt:
            if ch in '<>=!@':
                continue
            if ch.isdigit():
                num += ch
                continue
            out += [ch] * (int(num) if num else 1)
            num = ''
        return out

    def pack(self, fmt, *vals):
        if not any(isinstance(v, (SymReal, SymBool)) for v in vals):
            return self._st.pack(fmt, *vals)
        chars = self._chars(fmt)
        if len(chars) != len(vals) or any(c not in 'fdiIqQhHlL' for c in chars):
            raise self._st.error('pack expected %d items for packing (got %d)' % (len(chars), len(vals)))
        return SymBytes([('num', c, v) for c, v in zip(chars, vals)])


def read_packed(blob, fmt):
    """harness side: take the numbers of struct format `fmt` off the front of `blob` (bytes or SymBytes);
    returns (values, rest)"""
    import struct as _st
    if isinstance(blob, (bytes, bytearray)):
        n = _st.calcsize(fmt)
        if len(blob) < n:
            raise ValueError('short read')
        return list(_st.unpack(fmt, bytes(blob[:n]))), blob[n:]
    units = blob.units
    vals, i = [], 0
    for c in StructShim._chars(fmt):
        if i < len(units) and not isinstance(units[i], int):
            if units[i][1] != c:
                raise ValueError('format char %s where %s expected' % (units[i][1], c))
            vals.append(units[i][2])
            i += 1
        else:
            n = _st.calcsize('<' + c)
            raw = units[i:i + n]
            if len(raw) < n or not all(isinstance(b, int) for b in raw):
                raise ValueError('short read')
            vals.append(_st.unpack('<' + c, bytes(raw))[0])
            i += n
    return vals, SymBytes(units[i:])


class SerialPool:
    """model of multiprocessing.Pool for the symbolic run: `map` is order preserving and every task runs
    on a *copy* of its argument and returns a *copy* of its result (what pickling to / from a worker
    process does); worker start-up (`initializer`) runs once.  Scheduling, the number of workers and
    the workers' private module state are not modelled - results that depended on them would only show
    in the float replay, which uses the real Pool."""

    def __init__(self, *args, **kwargs):
        self.processes = kwargs.get('processes', args[0] if args else None)
        init = kwargs.get('initializer')
        if init is not None:
            init(*kwargs.get('initargs', ()))

    def map(self, fn, iterable, chunksize=None):
        import copy
        return [copy.deepcopy(fn(copy.deepcopy(x))) for x in list(iterable)]

    def terminate(self):
        pass

    close = join = terminate


class _serial_pool_context:
    def __init__(self, *args, **kwargs):
        self.pool = SerialPool(*args, **kwargs)

    def __enter__(self):
        return self.pool

    def __exit__(self, *exc):
        return False


def install_shims(modules):
    """inject float/math/print shims as module attributes (module globals win over builtins)."""
    ms = MathShim()
    for m in modules:
        m.float = FloatShim
        if hasattr(m, 'math'):
            m.math = ms
        m.print = lambda *a, **k: None
        if getattr(m, 'struct', None) is not None and getattr(m.struct, '__name__', '') == 'struct':
            m.struct = StructShim()
        if hasattr(m, 'pool_context'):
            m.pool_context = _serial_pool_context
        if hasattr(m, 'Pool'):
            m.Pool = SerialPool
        _SHIMMED.append(m)
    snapshot_module_state()


_MODULE_STATE = []      # (container object, pristine shallow copy) for every module-level dict / list / set of geomdl


def snapshot_module_state():
    """remember the module-level mutable containers of the shimmed geomdl modules as they are right after import"""
    import copy
    del _MODULE_STATE[:]
    seen = set()
    for m in _SHIMMED:
        for k, v in list(vars(m).items()):
            if k.startswith('__') or id(v) in seen:
                continue
            if isinstance(v, (dict, list, set)) and getattr(m, '__name__', '').startswith('geomdl'):
                seen.add(id(v))
                try:
                    _MODULE_STATE.append((v, copy.copy(v)))
                except Exception:
                    pass


def restore_module_state():
    """every path starts from the process state of a fresh import (what the float replay sees): memos kept in
    module-level containers must not carry values (symbolic ones!) from one explored path into the next"""
    for obj, pristine in _MODULE_STATE:
        try:
            if isinstance(obj, dict):
                if obj != pristine or len(obj) != len(pristine):
                    obj.clear()
                    obj.update(pristine)
            elif isinstance(obj, list):
                if len(obj) != len(pristine) or any(a is not b for a, b in zip(obj, pristine)):
                    obj[:] = pristine
            else:
                if obj != pristine:
                    obj.clear()
                    obj.update(pristine)
        except Exception:
            pass
    # containers created after the snapshot (module attributes that did not exist then) are emptied
    known = set(id(o) for o, _ in _MODULE_STATE)
    for m in _SHIMMED:
        if not getattr(m, '__name__', '').startswith('geomdl'):
            continue
        for k, v in list(vars(m).items()):
            if k.startswith('__') or id(v) in known:
                continue
            if isinstance(v, (dict, set)) and v:
                try:
                    v.clear()
                except Exception:
                    pass


def clear_lru_caches():
    restore_module_state()
    for m in _SHIMMED:
        for v in list(vars(m).values()):
            cc = getattr(v, 'cache_clear', None)
            if cc is not None and callable(cc):
                try:
                    cc()
                except Exception:
                    pass


# ----------------------------------------------------------------------------------------------
# solving helpers

def _z3frac(v):
    if z3.is_rational_value(v):
        return Fraction(v.numerator_as_long(), v.denominator_as_long())
    if z3.is_algebraic_value(v):
        a = v.approx(30)
        return Fraction(a.numerator_as_long(), a.denominator_as_long())
    raise ValueError('not a numeral: %s' % v)


class Stats(dict):
    def bump(self, k, v=1):
        self[k] = self.get(k, 0) + v


class Engine:
    def __init__(self, branch_timeout_ms=8000, ob_timeout_ms=20000, max_paths=4000, profile=True):
        self.branch_timeout_ms = branch_timeout_ms
        self.ob_timeout_ms = ob_timeout_ms
        self.max_paths = max_paths
        self.stats = Stats(paths=0, branch_queries=0, ob_queries=0, solver_s=0.0, unknown=0,
                           assumed_nonzero=0, certs=0, infeasible=0, aborted=0, forced=0, forks=0,
                           spurious_paths=0)
        self.qcache = {}
        self.rewrites = []
        self.functions = set()
        self.profile = profile
        self.path_records = []
        self.smt_samples = []

    # variables ---------------------------------------------------------------------------------
    def fresh(self, name, positive=False, param=False):
        i = VARS.get(name)
        if positive:
            VARS.positive.add(i)
        if param:
            VARS.params.add(i)
        return SymReal(RF(Poly.var(i)), i in VARS.positive)

    # path state --------------------------------------------------------------------------------
    def _begin_path(self, prefix):
        global _TOKENS
        self.prefix = prefix
        self.trace = []
        self.depth = 0
        self.pc = []            # list of (z3expr, frozenset(vars), lin)
        self.solverL = z3.Solver()
        self.solverL.set('timeout', self.branch_timeout_ms)
        self.decided = {}
        self.nz = set()
        self.defn_ids = set()
        self.sqrt_defs = []
        self.trig_defs = []
        self.fsign = {}
        self.subs = []
        self.rewrites = []
        self.nsq = 0
        self.trigs = {}
        self.sqrts = {}
        _TOKENS.clear()
        clear_lru_caches()

    def _add_pc(self, e, vars_, lin, defn=False):
        self.pc.append((e, vars_, lin))
        if defn:
            self.defn_ids.add(e.get_id())
        if lin:
            self.solverL.add(e)

    # solver access -------------------------------------------------------------------------------
    def _timed(self, fn, kind):
        t = time.time()
        r = fn()
        self.stats['solver_s'] += time.time() - t
        self.stats.bump(kind)
        if r == z3.unknown:
            self.stats.bump('unknown')
        return r

    def _slice(self, vars_):
        """constraints of the PC transitively sharing variables with vars_ (independence slicing)"""
        need = set(vars_)
        chosen = []
        rest = list(self.pc)
        while True:
            moved = False
            keep = []
            for ent in rest:
                if ent[1] & need:
                    chosen.append(ent)
                    need |= ent[1]
                    moved = True
                else:
                    keep.append(ent)
            rest = keep
            if not moved:
                break
        return chosen, rest

    def check_full(self, extra, vars_, timeout_ms, kind='branch_queries', want_model=False):
        """sat-check (slice of PC) /\\ extra with a fresh solver (tactic-based => nlsat available)."""
        chosen, rest = self._slice(vars_)
        key = (frozenset(e.get_id() for e, _, _ in chosen), tuple(x.get_id() for x in extra))
        if not want_model:
            hit = self.qcache.get(key)
            if hit is not None and hit[0] != 'unknown':
                return hit[0], None
        s = z3.Solver()
        s.set('timeout', timeout_ms)
        for e, _, _ in chosen:
            s.add(e)
        for x in extra:
            s.add(x)
        r = self._timed(s.check, kind)
        if r == z3.unknown:
            s2 = z3.Then('simplify', 'solve-eqs', 'qfnra-nlsat').solver()
            s2.set('timeout', timeout_ms)
            for e, _, _ in chosen:
                s2.add(e)
            for x in extra:
                s2.add(x)
            r2 = self._timed(s2.check, kind)
            if r2 != z3.unknown:
                r, s = r2, s2
        self.qcache[key] = (str(r), chosen, extra)    # keep ASTs alive so ids stay unique
        if kind == 'ob_queries' and r != z3.unknown and len(self.smt_samples) < 2:
            try:
                txt = s.sexpr()
                if len(txt) < 20000 and '*' in txt:
                    self.smt_samples.append((str(r), txt))
            except Exception:
                pass
        return str(r), (s.model() if (want_model and r == z3.sat) else None)

    def check_lin(self, e):
        return str(self._timed(lambda: self.solverL.check(e), 'branch_queries'))

    # decisions ---------------------------------------------------------------------------------
    def decide(self, sb):
        k = sb.e.get_id()
        if k in self.decided:
            return self.decided[k]
        i = self.depth
        self.depth += 1
        if i < len(self.prefix):
            v = self.prefix[i]
        else:
            if sb.lin:
                rt = self.check_lin(sb.e)
            else:
                rt, _ = self.check_full([sb.e], sb.vars, self.branch_timeout_ms)
            if rt == 'unknown':
                raise PathAbort('unknown at branch: %s' % (str(sb.e)[:200],))
            if rt == 'unsat':
                v = False
                self.stats.bump('forced')
            else:
                ne = z3.Not(sb.e)
                if sb.lin:
                    rf = self.check_lin(ne)
                else:
                    rf, _ = self.check_full([ne], sb.vars, self.branch_timeout_ms)
                if rf == 'unknown':
                    raise PathAbort('unknown at branch: not %s' % (str(sb.e)[:200],))
                if rf == 'unsat':
                    v = True
                    self.stats.bump('forced')
                else:
                    self.work.append(self.trace[:i] + [False])
                    self.stats.bump('forks')
                    v = True
        self.trace.append(v)
        self.decided[k] = v
        self._add_pc(sb.e if v else z3.Not(sb.e), sb.vars, sb.lin)
        if sb.eqpoly is not None:
            op, poly = sb.eqpoly
            if (op == '==' and v) or (op == '!=' and not v):
                self._note_equality(poly)
        return v

    def _note_equality(self, poly):
        poly = self.apply_subs(poly)
        if poly.is_const():
            return
        m = poly.lead()
        vi = m[0][0]
        c = poly.t[m]
        q = Poly({mm: -cc / c for mm, cc in poly.t.items() if mm != m})
        self.subs.append((vi, q))

    def apply_subs(self, poly):
        for vi, q in self.subs:
            poly = poly.subst(vi, q)
        return poly

    def apply_rewrites(self, poly):
        for vi, k, q in self.rewrites:
            poly = poly.reduce_power(vi, k, q)
        return poly

    def assume(self, cond, check=True):
        """add a precondition to the path; drops the path when it contradicts the PC"""
        if cond is True:
            return
        if cond is False:
            raise Infeasible()
        sb = as_symbool(cond)
        k = sb.e.get_id()
        if self.decided.get(k) is True:
            return
        if check:
            if sb.lin:
                r = self.check_lin(sb.e)
            else:
                r, _ = self.check_full([sb.e], sb.vars, self.branch_timeout_ms)
            if r == 'unsat':
                self.stats.bump('infeasible')
                raise Infeasible()
            if r == 'unknown':
                raise PathAbort('unknown at assumption %s' % (str(sb.e)[:200],))
        self.decided[k] = True
        self._add_pc(sb.e, sb.vars, sb.lin)
        if sb.eqpoly is not None and sb.eqpoly[0] == '==':
            self._note_equality(sb.eqpoly[1])

    def sign_of_factor(self, f):
        """+1 / -1 when the linear PC fixes the sign of the (linear) polynomial f on this path, else 0"""
        if not f.is_linear():
            return 0
        key = f.key()
        sg = self.fsign.get(key)
        if sg:
            return sg
        z = poly_to_z3(f)
        sg = 0
        if self.check_lin(z <= 0) == 'unsat':
            sg = 1
        elif self.check_lin(z >= 0) == 'unsat':
            sg = -1
        if sg:
            self.fsign[key] = sg
        return sg

    # division ---------------------------------------------------------------------------------
    def check_div(self, r):
        n = r.n
        if self.rewrites:
            n = self.apply_rewrites(n)
            if n.is_const():
                if n.cval() == 0:
                    raise ZeroDivisionError('float division by zero')
                return
        key = n.key()
        if key in self.nz:
            return
        z = poly_to_z3(n)
        c = z == 0
        lin = n.is_linear()
        vs = frozenset(n.vars())
        if lin:
            res = self.check_lin(c)
        else:
            res = None
            if self._positivity_certificate(n):
                res = 'unsat'
                self.stats.bump('certs')
            if res is None:
                res, _ = self.check_full([c], vs, min(3000, self.branch_timeout_ms))
        if res == 'sat':
            sb = SymBool(c, lin, vs, ('==', n) if lin else None)
            if self.decide(sb):
                raise ZeroDivisionError('float division by zero')
            self.nz.add(key)
            return
        if res == 'unknown':
            self.stats.bump('assumed_nonzero')
        self.nz.add(key)
        self._add_pc(z3.Not(c), vs, lin)

    def _positivity_certificate(self, n):
        """n = sum_j c_j * w_j with w_j > 0 (declared positive), PC |= c_j >= 0, PC |= sum c_j > 0
        ==> n > 0.  (weight functions sum N_i(u) w_i of rational shapes)"""
        pos = VARS.positive
        if not pos:
            return False
        groups = {}
        for m, c in n.t.items():
            hit = None
            for idx, (v, p) in enumerate(m):
                if v in pos:
                    if p != 1 or hit is not None:
                        return False
                    hit = (v, m[:idx] + m[idx + 1:])
            if hit is None:
                return False
            groups.setdefault(hit[0], {})[hit[1]] = c
        total = ZERO
        for v, t in groups.items():
            cj = Poly(t)
            total = total + cj
            if cj.is_const():
                if cj.cval() < 0:
                    return False
                continue
            r, _ = self.check_full([poly_to_z3(cj) < 0], frozenset(cj.vars()), 5000)
            if r != 'unsat':
                return False
        if total.is_const():
            return total.cval() > 0
        r, _ = self.check_full([poly_to_z3(total) <= 0], frozenset(total.vars()), 5000)
        return r == 'unsat'

    # shims' symbolic side -------------------------------------------------------------------------
    def sqrt(self, x):
        """sqrt(n / g) with g made a perfect square:  s / |g'|,  s >= 0,  s^2 = n'"""
        n = x.r.n
        gden = ONE
        for f, k in x.r.d.items():
            if k % 2:
                n = n * f
            for _ in range((k + 1) // 2):
                gden = gden * f
        n = self.apply_rewrites(self.apply_subs(n)) if (self.subs or self.rewrites) else n
        if n.is_zero():
            return SymReal.const(0)
        if n.is_const():
            c = n.cval()
            a, b = _math.isqrt(abs(c.numerator)), _math.isqrt(c.denominator)
            if c > 0 and a * a == c.numerator and b * b == c.denominator:
                s = SymReal.const(Fraction(a, b))
                return s if gden.is_const() and gden.cval() == 1 else s / abs(SymReal(RF(gden)))
        key = n.key()
        s = self.sqrts.get(key)
        if s is None:
            zn = poly_to_z3(n)
            vsn = frozenset(n.vars())
            if x.nn:
                r = 'unsat'          # syntactic sum-of-squares certificate
            else:
                r, _ = self.check_full([zn < 0], vsn, min(3000, self.branch_timeout_ms))
            if r == 'sat':
                if not bool(SymReal(RF(n)) >= 0):
                    raise ValueError('math domain error')
            elif r == 'unknown':
                self.stats.bump('assumed_sqrt_domain')
                self._add_pc(zn >= 0, vsn, n.is_linear())
            self.nsq += 1
            s = self.fresh('sqrt!%d' % self.nsq)
            si = VARS.idx['sqrt!%d' % self.nsq]
            vs = frozenset(n.vars() | {si})
            self._add_pc(VARS.z3v[si] >= 0, frozenset([si]), True)
            s.nn = True
            self._add_pc(VARS.z3v[si] * VARS.z3v[si] == poly_to_z3(n), vs, False, defn=True)
            self.sqrt_defs.append((si, n))
            self.rewrites.append((si, 2, n))
            self.sqrts[key] = s
        if gden.is_const() and gden.cval() == 1:
            return s
        return s / abs(SymReal(RF(gden)))

    def trig(self, x):
        key = (x.r.n.key(), tuple(sorted((f.key(), k) for f, k in x.r.d.items())))
        cs = self.trigs.get(key)
        if cs is None:
            j = len(self.trigs)
            c = self.fresh('cos!%d' % j)
            s = self.fresh('sin!%d' % j)
            ci, si = VARS.idx['cos!%d' % j], VARS.idx['sin!%d' % j]
            zc, zs = VARS.z3v[ci], VARS.z3v[si]
            self._add_pc(zc * zc + zs * zs == 1, frozenset([ci, si]), False, defn=True)
            self.trig_defs.append((ci, si))
            self._add_pc(z3.And(zc >= -1, zc <= 1, zs >= -1, zs <= 1), frozenset([ci, si]), True)
            # rewrite sin^2 -> 1 - cos^2
            self.rewrites.append((si, 2, ONE - Poly.var(ci) * Poly.var(ci)))
            cs = (c, s)
            self.trigs[key] = cs
        return cs

    # models -----------------------------------------------------------------------------------
    def model_for(self, extra, vars_, timeout_ms):
        """a full assignment of all variables satisfying PC /\\ extra, or None"""
        chosen, rest = self._slice(vars_)

        def solve(cons, bounded):
            s = z3.Solver()
            s.set('timeout', timeout_ms)
            vs = set()
            for e, v, _ in cons:
                s.add(e)
                vs |= v
            if bounded:
                for vi in vs:
                    zv = VARS.z3v[vi]
                    if vi in VARS.positive:
                        s.add(zv >= z3.Q(1, 4), zv <= 4)
                    elif not VARS.names[vi].startswith(('sqrt!', 'cos!', 'sin!')):
                        s.add(zv >= -50, zv <= 50)
            r = self._timed(s.check, 'ob_queries')
            return s.model() if r == z3.sat else None

        ex = [(x, vars_, False) for x in extra]
        m1 = solve(chosen + ex, True) or solve(chosen + ex, False)
        if m1 is None:
            return None
        vals = {}
        models = [m1]
        if rest:
            m2 = solve(rest, True) or solve(rest, False)
            if m2 is not None:
                models.append(m2)
        for i, name in enumerate(VARS.names):
            val = None
            for m in models:
                v = m.eval(VARS.z3v[i])
                if z3.is_rational_value(v) or z3.is_algebraic_value(v):
                    val = _z3frac(v)
                    break
            if val is None:
                val = Fraction(1) if i in VARS.positive else Fraction(0)
            vals[name] = val
        return vals

    def _model_satisfies(self, vals, cond):
        try:
            subs = []
            for i, name in enumerate(VARS.names):
                v = vals.get(name)
                if v is None:
                    continue
                v = Fraction(v)
                subs.append((VARS.z3v[i], z3.RealVal(v.numerator) if v.denominator == 1 else z3.Q(v.numerator, v.denominator)))
            return z3.is_true(z3.simplify(z3.substitute(cond, subs)))
        except Exception:
            return False

    def generic_model_for(self, extra, vars_, timeout_ms, seed=7):
        """a second, *generic* candidate for the float replay of a counterexample: z3's own models sit on the boundary
        of tolerance comparisons (x == y + 1e-18), which floats cannot tell apart.  Free variables are pinned to
        pseudo-random 'nice' values through the LINEAR path condition only (fast), the candidate is then checked
        numerically against the whole path condition and the negated obligation."""
        neg = extra[0] if len(extra) == 1 else z3.And(list(extra))
        for sd in (seed, seed + 1000, seed + 2000, seed + 3000):
            m = self._generic_linear_model(sd)
            if m is None:
                continue
            env = self._numeric_witness(m, extra=(neg,), want_env=True)
            if env:
                return {VARS.names[i]: v for i, v in env.items()}
        return None

    # exploration ---------------------------------------------------------------------------------
    def explore(self, harness, params, cx_factory):
        global _ENG
        _ENG = self
        self.work = [[]]
        results = []
        first = True
        try:
            while self.work:
                if self.stats['paths'] + self.stats['aborted'] >= self.max_paths:
                    results.append({'kind': 'abort', 'why': 'max_paths %d reached' % self.max_paths})
                    break
                self._begin_path(self.work.pop())
                cx = cx_factory(self)
                exc = None
                prof = first and self.profile
                if prof:
                    sys.setprofile(self._profile)
                try:
                    harness(cx, **params)
                except PathAbort as e:
                    self.stats.bump('aborted')
                    results.append({'kind': 'abort', 'why': str(e)})
                    continue
                except Concretized as e:
                    self.stats.bump('aborted')
                    tb = traceback.extract_tb(e.__traceback__)
                    where = ' <- '.join('%s:%d' % (f.filename.split('/')[-1], f.lineno) for f in tb[-4:])
                    results.append({'kind': 'abort', 'why': 'concretized: %s at %s' % (e, where)})
                    continue
                except Infeasible:
                    continue
                except InstanceTimeout:
                    raise
                except Exception as e:        # escaped the harness on a feasible path
                    tb = traceback.extract_tb(e.__traceback__)
                    where = ' <- '.join('%s:%d' % (f.filename.split('/')[-1], f.lineno) for f in tb[-3:])
                    exc = '%s: %s at %s' % (type(e).__name__, str(e)[:200], where)
                    if not any('/geomdl/' in f.filename for f in tb):
                        # raised by the harness itself, not by the code under test: harness error
                        self.stats.bump('aborted')
                        results.append({'kind': 'abort', 'why': 'harness exception ' + exc})
                        # obligations recorded before the harness tripped are still decided: a failing one is a
                        # (replayed) counterexample and usually the very reason for the harness error
                        try:
                            rec = self._finish_path(cx, None)
                            if any(o.get('status') == 'cex' for o in rec.get('obligations', [])):
                                results.append(rec)
                        except Exception:
                            pass
                        continue
                finally:
                    if prof:
                        sys.setprofile(None)
                first = False
                self.stats.bump('paths')
                results.append(self._finish_path(cx, exc))
        finally:
            _ENG = None
            sys.setprofile(None)
        return results

    def _profile(self, frame, event, arg):
        if event == 'call':
            co = frame.f_code
            fn = co.co_filename
            if '/geomdl/' in fn:
                self.functions.add('%s:%s' % (fn.split('/geomdl/')[-1], co.co_qualname if hasattr(co, 'co_qualname') else co.co_name))

    # obligations ---------------------------------------------------------------------------------
    def _implied_equalities(self):
        """parameters squeezed to a point by the linear PC (tolerance comparisons + snap-zone assumption)"""
        cand = [vi for vi in VARS.params if not any(vi == s[0] for s in self.subs)]
        if not cand:
            return
        if self.check_lin(z3.BoolVal(True)) != 'sat':
            return
        m = self.solverL.model()
        for vi in cand:
            zv = VARS.z3v[vi]
            val = m.eval(zv, model_completion=True)
            if not z3.is_rational_value(val):
                continue
            if self.check_lin(zv != val) == 'unsat':
                self.subs.append((vi, Poly.const(_z3frac(val))))

    def _finish_path(self, cx, exc):
        rec = {'kind': 'path', 'obligations': [], 'pc_len': len(self.pc), 'decisions': len(self.trace)}
        self._implied_equalities()
        pending = []     # (name, negated z3 cond, vars, detail)
        obs = rec['obligations']
        if exc is not None:
            pending.append(('no-exception', z3.BoolVal(True), frozenset(), exc))
        for ob in cx.obligations:
            kind, name = ob[0], ob[1]
            if kind == 'fail':
                pending.append((name, z3.BoolVal(True), frozenset(), ob[2]))
                continue
            if kind == 'ok':
                obs.append({'name': name, 'status': 'ok', 'how': 'concrete', 'nontrivial': False})
                continue
            if kind == 'cond':
                sb = ob[2]
                pending.append((name, z3.Not(sb.e), sb.vars, 'condition not implied by path: %s' % str(sb.e)[:160]))
                continue
            a, b = ob[2], ob[3]
            d = rf_add(sym(a).r, sym(b).r, -1)
            if kind == 'eq':
                n = d.n
                if not n.is_zero() and (self.subs or self.rewrites):
                    n = self.apply_rewrites(self.apply_subs(n))
                if n.is_zero():
                    obs.append({'name': name, 'status': 'ok', 'how': 'normal-form',
                                'nontrivial': not (sym(a).is_const() and sym(b).is_const())})
                    continue
                if n.is_const():
                    pending.append((name, z3.BoolVal(True), frozenset(), 'differs by constant %s' % n.cval()))
                    continue
                pending.append((name, poly_to_z3(n) != 0, frozenset(n.vars()),
                                'lhs - rhs numerator = %s' % n.pretty(VARS.names, 6)))
            else:   # 'ge' / 'gt'
                p = signpoly(d)
                if self.subs or self.rewrites:
                    p = self.apply_rewrites(self.apply_subs(p))
                if p.is_const():
                    good = p.cval() >= 0 if kind == 'ge' else p.cval() > 0
                    if good:
                        obs.append({'name': name, 'status': 'ok', 'how': 'normal-form', 'nontrivial': True})
                    else:
                        pending.append((name, z3.BoolVal(True), frozenset(), 'constant %s violates %s' % (p.cval(), kind)))
                    continue
                z = poly_to_z3(p)
                pending.append((name, (z < 0) if kind == 'ge' else (z <= 0), frozenset(p.vars()),
                                'sign polynomial = %s' % p.pretty(VARS.names, 6)))
        # reachability witness: the full PC is satisfiable
        rec['witness'] = self._witness()
        if rec['witness'] == 'unsat':
            self.stats.bump('spurious_paths')
            for name, _, _, _ in pending:
                obs.append({'name': name, 'status': 'vacuous', 'how': 'z3', 'nontrivial': False})
            return rec
        # batch discharge
        if pending:
            allvars = frozenset().union(*[p[2] for p in pending])
            r = 'unknown'
            if len(pending) > 1:
                r, _ = self.check_full([z3.Or([p[1] for p in pending])], allvars, self.ob_timeout_ms, 'ob_queries')
            if r == 'unsat':
                for name, _, _, _ in pending:
                    obs.append({'name': name, 'status': 'ok', 'how': 'z3', 'nontrivial': True})
            else:
                for name, neg, vs, detail in pending:
                    r1, _ = self.check_full([neg], vs, self.ob_timeout_ms, 'ob_queries')
                    if r1 == 'unsat':
                        obs.append({'name': name, 'status': 'ok', 'how': 'z3', 'nontrivial': True})
                    elif r1 == 'unknown':
                        nm = self._numeric_cex(neg)
                        if nm is not None:
                            self.stats.bump('numeric_cex')
                            obs.append({'name': name, 'status': 'cex', 'how': 'numeric-search', 'detail': detail + ' (solver unknown; numeric candidate)',
                                        'model': {k: str(v) for k, v in nm.items()}, 'nontrivial': True})
                        else:
                            obs.append({'name': name, 'status': 'unknown', 'how': 'z3', 'detail': detail, 'nontrivial': True})
                    else:
                        already = any(o['status'] == 'cex' and _base(o['name']) == _base(name) for o in obs)
                        model = None
                        if not already:
                            # an earlier counterexample model of this path often falsifies this obligation as well
                            for pm in rec.setdefault('_models', []):
                                if self._model_satisfies(pm, neg):
                                    model = pm
                                    break
                            if model is None:
                                model = self.model_for([neg], vs, self.ob_timeout_ms)
                                if model is not None:
                                    rec['_models'].append(model)
                        alt = None
                        if model is not None and not rec.get('alt_done'):
                            rec['alt_done'] = True          # one generic candidate per path is enough (and cheap)
                            try:
                                alt = self.generic_model_for([neg], vs, 6000)
                            except Exception:
                                alt = None
                        obs.append({'name': name, 'status': 'cex', 'how': 'z3', 'detail': detail,
                                    'model': None if model is None else {k: str(v) for k, v in model.items()},
                                    'alt_models': [] if alt is None else [{k: str(v) for k, v in alt.items()}],
                                    'nontrivial': True})
        rec.pop('_models', None)
        rec.pop('alt_done', None)
        if len(self.path_records) < 3:
            self.path_records.append({
                'path_condition': [str(e)[:120] for e, _, _ in self.pc[-8:]],
                'obligations': [o['name'] for o in obs[:6]]})
        return rec

    def _witness(self):
        if all(l for _, _, l in self.pc):
            r = self.check_lin(z3.BoolVal(True))
            return r
        # 1. numeric witness: model of the linear part, defined variables (sqrt / cos / sin) computed
        #    from their defining relations, every other conjunct evaluated
        if self.check_lin(z3.BoolVal(True)) == 'sat':
            m = self.solverL.model()
            if self._numeric_witness(m):
                return 'sat'
            m2 = self._generic_linear_model()
            if m2 is not None and self._numeric_witness(m2):
                return 'sat'
        # 2. component-wise full check
        seen = set()
        verdict = 'sat'
        for e, vs, l in list(self.pc):
            if l or e.get_id() in seen:
                continue
            chosen, _ = self._slice(vs)
            for c in chosen:
                seen.add(c[0].get_id())
            r, _ = self.check_full([], vs, self.branch_timeout_ms)
            if r == 'unsat':
                return 'unsat'
            if r == 'unknown':
                verdict = 'unknown'
        return verdict

    def _generic_linear_model(self, seed=12345):
        """a model of the linear PC in which free variables take generic (pseudo-random) values"""
        import random
        rnd = random.Random(seed)
        sL = self.solverL
        sL.push()
        try:
            for i in range(len(VARS.names)):
                nm = VARS.names[i]
                if nm.startswith(('sqrt!', 'cos!', 'sin!')):
                    continue
                for attempt in range(12):
                    if attempt >= 2:
                        val = Fraction(rnd.randint(1, 31), 32)          # (parameters live in small intervals of [0, 1])
                    elif i in VARS.positive:
                        val = Fraction(rnd.randint(2, 9), rnd.randint(2, 5))
                    else:
                        val = Fraction(rnd.randint(-12, 12), rnd.randint(2, 7))
                    c = VARS.z3v[i] == z3.Q(val.numerator, val.denominator)
                    if str(self._timed(lambda: sL.check(c), 'branch_queries')) == 'sat':
                        sL.add(c)
                        break
            if sL.check() != z3.sat:
                return None
            return sL.model()
        finally:
            sL.pop()

    def _numeric_witness(self, m, extra=(), want_env=False):
        import itertools
        env = {}
        defined = set(si for si, _ in self.sqrt_defs)
        for ci, si in self.trig_defs:
            defined.add(ci)
            defined.add(si)
        for i in range(len(VARS.names)):
            if i in defined:
                continue
            v = m.eval(VARS.z3v[i], model_completion=True)
            try:
                env[i] = _z3frac(v)
            except ValueError:
                return False
        circle = [(Fraction(3, 5), Fraction(4, 5)), (Fraction(-3, 5), Fraction(4, 5)), (Fraction(3, 5), Fraction(-4, 5)),
                  (Fraction(5, 13), Fraction(12, 13)), (Fraction(0), Fraction(1)), (Fraction(1), Fraction(0))]
        combos = itertools.islice(itertools.product(circle, repeat=len(self.trig_defs)), 40)
        for combo in combos:
            e2 = dict(env)
            for (ci, si), (c, s_) in zip(self.trig_defs, combo):
                e2[ci], e2[si] = c, s_
            ok = True
            for si, n in self.sqrt_defs:
                try:
                    val = n.evaluate(e2)
                except KeyError:
                    ok = False
                    break
                if val < 0:
                    ok = False
                    break
                sc = 10 ** 60
                e2[si] = Fraction(_math.isqrt(val.numerator * sc // val.denominator), 10 ** 30)
            if not ok:
                continue
            subs = [(VARS.z3v[i], z3.RealVal(v) if v.denominator == 1 else z3.Q(v.numerator, v.denominator)) for i, v in e2.items()]
            good = True
            for e, _, _ in self.pc:
                if e.get_id() in self.defn_ids:
                    continue
                if not z3.is_true(z3.simplify(z3.substitute(e, *subs))):
                    good = False
                    break
            if good:
                for x in extra:
                    if not z3.is_true(z3.simplify(z3.substitute(x, *subs))):
                        good = False
                        break
            if good:
                self.stats.bump('numeric_witnesses')
                return e2 if want_env else True
        return None if want_env else False

    def _numeric_cex(self, neg):
        """solver answered unknown: look for a counterexample numerically (generic models of the linear PC,
        defined variables computed from their relations); whatever is found is still replayed on the float code"""
        for seed in (12345, 777, 4242, 99, 31337, 2718):
            m = self._generic_linear_model(seed)
            if m is None:
                continue
            env = self._numeric_witness(m, extra=(neg,), want_env=True)
            if env:
                return {VARS.names[i]: v for i, v in env.items()}
        return None


def _base(name):
    out = []
    depth = 0
    for ch in name:
        if ch == '[':
            depth += 1
        elif ch == ']':
            depth -= 1
        elif depth == 0:
            out.append(ch)
    return ''.join(out)


base_name = _base
