"""geomdl access: imports the modules of /repo's current working tree, installs the shims (symbolic
mode only) and offers builders that construct shapes through the *public* setters."""
import importlib
import os
import sys

REPO = os.environ.get('SX_REPO', '/repo')
if REPO not in sys.path:
    sys.path.insert(0, REPO)

MODNAMES = ['helpers', 'linalg', '_linalg', 'knotvector', 'utilities', '_utilities', 'abstract', 'evaluators',
            'BSpline', 'NURBS', 'operations', '_operations', 'compatibility', 'convert', '_convert',
            'construct', 'control_points', 'CPGen', 'fitting', 'multi', 'ray', 'tessellate',
            '_tessellate', 'elements', 'trimming', 'sweeping', 'freeform', 'voxelize', '_voxelize',
            'exchange', '_exchange', 'shortcuts', 'exceptions']

_mods = {}


def mods():
    if not _mods:
        for n in MODNAMES:
            _mods[n] = importlib.import_module('geomdl.' + n)
        f = _mods['helpers'].__file__
        if not os.path.realpath(f).startswith(os.path.realpath(REPO) + os.sep):
            raise RuntimeError('geomdl imported from %s, not from %s' % (f, REPO))
    return _mods


def M(name):
    return mods()[name]


def shim_all():
    from . import core
    core.install_shims(list(mods().values()))


def make_curve(cx, degree, kv, ctrl, weights=None, normalize_kv=False, **kw):
    """ctrl: list of points; weights: list or None.  Built through the public setters."""
    if weights is not None:
        c = M('NURBS').Curve(normalize_kv=normalize_kv, **kw)
        c.degree = degree
        c.ctrlptsw = [[x * w for x in p] + [w] for p, w in zip(ctrl, weights)]
    else:
        c = M('BSpline').Curve(normalize_kv=normalize_kv, **kw)
        c.degree = degree
        c.ctrlpts = [list(p) for p in ctrl]
    c.knotvector = kv if isinstance(kv, tuple) else list(kv)
    return c


def make_surface(cx, du, dv, kvu, kvv, su, sv, ctrl, weights=None, normalize_kv=False, **kw):
    if weights is not None:
        s = M('NURBS').Surface(normalize_kv=normalize_kv, **kw)
        s.degree_u, s.degree_v = du, dv
        s.set_ctrlpts([[x * w for x in p] + [w] for p, w in zip(ctrl, weights)], su, sv)
    else:
        s = M('BSpline').Surface(normalize_kv=normalize_kv, **kw)
        s.degree_u, s.degree_v = du, dv
        s.set_ctrlpts([list(p) for p in ctrl], su, sv)
    s.knotvector_u = kvu if isinstance(kvu, tuple) else list(kvu)
    s.knotvector_v = kvv if isinstance(kvv, tuple) else list(kvv)
    return s


def make_volume(cx, degs, kvs, sizes, ctrl, weights=None, normalize_kv=False, **kw):
    if weights is not None:
        v = M('NURBS').Volume(normalize_kv=normalize_kv, **kw)
        v.degree_u, v.degree_v, v.degree_w = degs
        v.set_ctrlpts([[x * w for x in p] + [w] for p, w in zip(ctrl, weights)], *sizes)
    else:
        v = M('BSpline').Volume(normalize_kv=normalize_kv, **kw)
        v.degree_u, v.degree_v, v.degree_w = degs
        v.set_ctrlpts([list(p) for p in ctrl], *sizes)
    v.knotvector_u, v.knotvector_v, v.knotvector_w = [k if isinstance(k, tuple) else list(k) for k in kvs]
    return v
