"""Shared instance families (DESIGN section 3): knot patterns with exact rational knots."""
from fractions import Fraction as F


def clamped(p, interior, lo=0, hi=1):
    """clamped knot vector of degree p; interior = list of (value, multiplicity)"""
    kv = [F(lo)] * (p + 1)
    for val, m in interior:
        kv += [F(val)] * m
    kv += [F(hi)] * (p + 1)
    return kv


def pattern(p, mults, lo=0, hi=1):
    """interior knots equally spaced in (lo,hi) with the given multiplicities"""
    k = len(mults)
    vals = [F(lo) + (F(hi) - F(lo)) * F(i + 1, k + 1) for i in range(k)]
    return clamped(p, list(zip(vals, mults)), lo, hi)


def unclamped_uniform(p, n):
    """uniform knot vector 0,1,2,.. for n control points (domain [p, n])"""
    return [F(i) for i in range(n + p + 1)]


def unclamped_unit(p, n):
    """uniform unclamped knot vector scaled so that the domain [K[p], K[n]] is [0, 1]"""
    return [F(i - p, n - p) for i in range(n + p + 1)]


def kq_patterns(p):
    """quick family of interior multiplicity patterns for degree p"""
    pats = [(), (1,), (1, 1), (p,)]
    if p >= 2:
        pats.append((2,))
        pats.append((1, p, 1))
    out = []
    for m in pats:
        if m not in out:
            out.append(m)
    return out


def kt_patterns(p, maxk=3):
    """all interior multiplicity patterns with <= maxk distinct interior knots, m_i <= p"""
    out = [()]
    def rec(cur):
        if len(cur) == maxk:
            return
        for m in range(1, p + 1):
            nxt = cur + (m,)
            out.append(nxt)
            rec(nxt)
    rec(())
    return out


def distinct(kv):
    out = []
    for k in kv:
        if not out or out[-1] != k:
            out.append(k)
    return out


def kv_name(kv):
    return ','.join(str(k) for k in kv)
