"""Definition-shaped oracles, written in generic arithmetic so that they run on SymReal (symbolic
mode) and on floats (replay).  None of them calls geomdl."""
from fractions import Fraction
from math import comb


def _N(i, p, K, u, cx, end):
    if p == 0:
        if cx.holds(K[i] <= u) and cx.holds(u < K[i + 1]):
            return cx.const(1)
        # closed at the right end of the domain: the last non-empty span contains the end point
        if cx.holds(u == end) and cx.holds(K[i] < K[i + 1]) and cx.holds(K[i + 1] == end):
            return cx.const(1)
        return cx.const(0)
    t = cx.const(0)
    if cx.holds(K[i + p] != K[i]):
        a = _N(i, p - 1, K, u, cx, end)
        t = t + (u - K[i]) / (K[i + p] - K[i]) * a
    if cx.holds(K[i + p + 1] != K[i + 1]):
        b = _N(i + 1, p - 1, K, u, cx, end)
        t = t + (K[i + p + 1] - u) / (K[i + p + 1] - K[i + 1]) * b
    return t


def all_basis_def(p, K, u, cx):
    """[N_{0,p}(u) .. N_{n-1,p}(u)] on the domain [K[p], K[n]]"""
    n = len(K) - p - 1
    # closed-end rule only where no half-open span contains u, i.e. at the very last knot
    # (for unclamped vectors the domain end K[n] lies inside the half-open span [K[n], K[n+1]))
    end = K[-1]
    return [_N(i, p, K, u, cx, end) for i in range(n)]


def span_of(p, K, u, cx):
    """index k with K[k] <= u < K[k+1], K[k] < K[k+1] (last non-empty span at the domain end)"""
    n = len(K) - p - 1
    if cx.holds(u == K[n]):
        k = n - 1
        while k > p and not cx.holds(K[k] < K[k + 1]):
            k -= 1
        return k
    for k in range(p, n):
        if cx.holds(K[k] <= u) and cx.holds(u < K[k + 1]):
            return k
    raise AssertionError('parameter outside the domain')


def basis_on_span(p, K, k, u, cx):
    """{i: N_{i,p}} as *polynomial pieces* valid on span k (indicator chosen by index, no comparison on u):
    used to build the formal-derivative oracle; u may be a fresh symbol."""
    N = {k: cx.const(1) if cx is not None else 1}
    for d in range(1, p + 1):
        new = {}
        for i in range(k - d, k + 1):
            t = 0
            if i in N and _neq(K[i + d], K[i], cx):
                t = t + (u - K[i]) / (K[i + d] - K[i]) * N[i]
            if (i + 1) in N and _neq(K[i + d + 1], K[i + 1], cx):
                t = t + (K[i + d + 1] - u) / (K[i + d + 1] - K[i + 1]) * N[i + 1]
            new[i] = t
        N = new
    return N


def _neq(a, b, cx):
    c = (a != b)
    return cx.holds(c) if cx is not None else bool(c)


def curve_point_def(p, K, P, W, u, cx):
    Ns = all_basis_def(p, K, u, cx)
    dim = len(P[0])
    if W is None:
        return [sum((Ns[i] * P[i][d] for i in range(1, len(P))), Ns[0] * P[0][d]) for d in range(dim)]
    den = sum((Ns[i] * W[i] for i in range(1, len(P))), Ns[0] * W[0])
    return [sum((Ns[i] * W[i] * P[i][d] for i in range(1, len(P))), Ns[0] * W[0] * P[0][d]) / den for d in range(dim)]


def surface_point_def(pu, pv, Ku, Kv, su, sv, P, W, u, v, cx):
    """P flat, v fastest: P[j + sv*i]"""
    Nu = all_basis_def(pu, Ku, u, cx)
    Nv = all_basis_def(pv, Kv, v, cx)
    dim = len(P[0])
    num = [cx.const(0)] * dim
    den = cx.const(0)
    for i in range(su):
        for j in range(sv):
            b = Nu[i] * Nv[j]
            idx = j + sv * i
            if W is not None:
                b = b * W[idx]
                den = den + b
            num = [num[d] + b * P[idx][d] for d in range(dim)]
    if W is None:
        return num
    return [x / den for x in num]


def volume_point_def(degs, Ks, sizes, P, W, prm, cx):
    """P flat: index v + sv*(u + su*w)"""
    su, sv, sw = sizes
    Nu = all_basis_def(degs[0], Ks[0], prm[0], cx)
    Nv = all_basis_def(degs[1], Ks[1], prm[1], cx)
    Nw = all_basis_def(degs[2], Ks[2], prm[2], cx)
    dim = len(P[0])
    num = [cx.const(0)] * dim
    den = cx.const(0)
    for k in range(sw):
        for i in range(su):
            for j in range(sv):
                b = Nu[i] * Nv[j] * Nw[k]
                idx = j + sv * (i + su * k)
                if W is not None:
                    b = b * W[idx]
                    den = den + b
                num = [num[d] + b * P[idx][d] for d in range(dim)]
    if W is None:
        return num
    return [x / den for x in num]


def bernstein(i, n, t):
    return comb(n, i) * t ** i * (1 - t) ** (n - i)


def bezier_point(P, t):
    n = len(P) - 1
    dim = len(P[0])
    return [sum((bernstein(i, n, t) * P[i][d] for i in range(1, n + 1)), bernstein(0, n, t) * P[0][d]) for d in range(dim)]


def leibniz_det(A):
    from itertools import permutations
    n = len(A)
    tot = 0
    for perm in permutations(range(n)):
        sign = 1
        for i in range(n):
            for j in range(i + 1, n):
                if perm[i] > perm[j]:
                    sign = -sign
        term = sign
        for i in range(n):
            term = term * A[i][perm[i]]
        tot = tot + term
    return tot


def basis_ders_on_span(p, K, k, u, order, cx):
    """ders[d][j] = d-th derivative (from the right) of N_{k-p+j,p} at u, for j = 0..p, d = 0..order:
    formal derivative of the Cox-de Boor polynomial pieces valid on span k."""
    from . import core
    if cx.symbolic:
        N = basis_on_span(p, K, k, u, cx)
        return [[core.diff(N[k - p + j], u, d) if d else core.sym(N[k - p + j]) for j in range(p + 1)] for d in range(order + 1)]
    t = core.SymReal(core.RF(core.Poly.var(core.VARS.get('t!oracle'))))
    Kc = [core.SymReal.const(Fraction(x)) for x in K]
    N = basis_on_span(p, Kc, k, t, None)
    uq = Fraction(u)
    out = []
    for d in range(order + 1):
        row = []
        for j in range(p + 1):
            f = core.diff(N[k - p + j], t, d) if d else core.sym(N[k - p + j])
            row.append(float(core.subst(f, t, core.SymReal.const(uq)).cval()))
        out.append(row)
    return out


class DerivOracle:
    """Formal (mixed partial) derivatives of the position function given by the Cox-de Boor *definition*
    on the polynomial piece that contains the parameter (right-continuous at knots).  Works symbolically
    (parameters are the harness' own variables) and in float replay (private variables, exact Fractions)."""

    def __init__(self, cx, degs, Ks, sizes, P, W, prm):
        from . import core
        self.core = core
        self.cx = cx
        self.prm = list(prm)
        nd = len(degs)
        spans = [span_of(degs[d], Ks[d], prm[d], cx) for d in range(nd)]
        self.spans = spans
        if cx.symbolic:
            self.vars = list(prm)
            Kx = Ks
            lift = lambda x: x
            hc = cx
        else:
            self.vars = [core.SymReal(core.RF(core.Poly.var(core.VARS.get('t!%d' % d)))) for d in range(nd)]
            c = lambda x: core.SymReal.const(Fraction(x))
            Kx = [[c(k) for k in K] for K in Ks]
            lift = c
            hc = None
        Ns = [basis_on_span(degs[d], Kx[d], spans[d], self.vars[d], hc) for d in range(nd)]
        dim = len(P[0])
        num = [0] * dim
        den = 0

        def rec(d, idxs, coef):
            nonlocal num, den
            if d == nd:
                if nd == 1:
                    flat = idxs[0]
                elif nd == 2:
                    flat = idxs[1] + sizes[1] * idxs[0]
                else:
                    flat = idxs[1] + sizes[1] * (idxs[0] + sizes[0] * idxs[2])
                b = coef
                if W is not None:
                    b = b * lift(W[flat])
                    den = den + b
                num = [num[k] + b * lift(P[flat][k]) for k in range(dim)]
                return
            for i, Ni in Ns[d].items():
                rec(d + 1, idxs + [i], coef * Ni)
        rec(0, [], 1)
        self.num = num
        self.den = den if W is not None else None
        self._pos = None

    @property
    def pos(self):
        if self._pos is None:
            self._pos = self.num if self.den is None else [x / self.den for x in self.num]
        return self._pos

    def _finish(self, f):
        core = self.core
        if not self.cx.symbolic:
            for v, val in zip(self.vars, self.prm):
                f = core.subst(f, v, core.SymReal.const(Fraction(val)))
            f = float(f.cval())
        return f

    def _dpoly(self, f, orders):
        core = self.core
        f = core.sym(f)
        for v, k in zip(self.vars, orders):
            if k:
                f = core.diff(f, v, k)
        return self._finish(f)

    def Dnum(self, *orders):
        """mixed partial of the (polynomial) numerator vector  A = sum N w P"""
        return [self._dpoly(c, orders) for c in self.num]

    def Dden(self, *orders):
        """mixed partial of the weight function  w = sum N w"""
        return self._dpoly(self.den, orders)

    def leibniz_residuals(self, get, orders):
        """For a rational shape S = A / w the derivatives are characterised (inductively, w != 0) by
             A^(k) = sum_i C(k,i) w^(i) S^(k-i)          (per direction; tensor form for surfaces).
        get(*lower_orders) returns the implementation's derivative vector; returns (lhs, rhs) vectors."""
        from itertools import product
        from math import comb
        lhs = self.Dnum(*orders)
        dim = len(lhs)
        rhs = [0] * dim
        for idx in product(*[range(k + 1) for k in orders]):
            c = 1
            for k, i in zip(orders, idx):
                c *= comb(k, i)
            wd = self.Dden(*idx)
            vec = get(*[k - i for k, i in zip(orders, idx)])
            rhs = [r + c * wd * x for r, x in zip(rhs, vec)]
        return lhs, rhs

    def D(self, *orders):
        """vector of the mixed partial derivative d^k1/du^k1 d^k2/dv^k2 ... of the position"""
        return [self._dpoly(comp, orders) for comp in self.pos]
