"""Harness contexts.  A harness is written once against `cx` and runs in two modes:

SymCx  : inputs are symbolic (SymReal), obligations are discharged by z3 over all values;
ConcCx : inputs are the concrete floats of a counterexample, the *unshimmed* geomdl code runs in
         ordinary float arithmetic and obligations are compared with a tolerance (replay).
"""
import builtins
from fractions import Fraction

from . import core
from .core import SymReal, SymBool, as_symbool

_float = builtins.float


class ExpectedFailure(Exception):
    pass


class BaseCx:
    symbolic = False

    def __init__(self):
        self.obligations = []
        self.notes = {}

    # ---- structure helpers shared by both modes
    def reals(self, prefix, n, **kw):
        return [self.real('%s%d' % (prefix, i), **kw) for i in range(n)]

    def points(self, prefix, n, dim, **kw):
        return [[self.real('%s%d_%d' % (prefix, i, d), **kw) for d in range(dim)] for i in range(n)]

    def consts(self, xs):
        return [self.const(x) for x in xs]

    def eq(self, name, a, b):
        """a == b, recursively over lists/tuples/dicts of numbers"""
        if isinstance(a, dict) and isinstance(b, dict):
            if set(a) != set(b):
                return self.fail(name, 'key sets differ: %s vs %s' % (sorted(map(str, a)), sorted(map(str, b))))
            for k in a:
                self.eq('%s[%s]' % (name, k), a[k], b[k])
            return
        if isinstance(a, (list, tuple)) or isinstance(b, (list, tuple)):
            if not (isinstance(a, (list, tuple)) and isinstance(b, (list, tuple))):
                return self.fail(name, 'sequence vs scalar: %s / %s' % (type(a).__name__, type(b).__name__))
            if len(a) != len(b):
                return self.fail(name, 'lengths differ: %d vs %d' % (len(a), len(b)))
            for i, (x, y) in enumerate(zip(a, b)):
                self.eq('%s[%d]' % (name, i), x, y)
            return
        if a is None or b is None or isinstance(a, (str, bytes)) or isinstance(b, (str, bytes)):
            return self.check(name, a == b, '%r vs %r' % (a, b))
        self._eq_num(name, a, b)

    def check(self, name, cond, detail=''):
        raise NotImplementedError

    def fail(self, name, detail=''):
        self.obligations.append(('fail', name, detail))

    def note(self, key, value):
        self.notes[key] = value

    def expect_raises(self, name, exc_types, fn, *a, **k):
        """fn(*a, **k) must raise one of exc_types; returns True when it did"""
        try:
            fn(*a, **k)
        except exc_types:
            self.obligations.append(('ok', name))
            return True
        self.fail(name, 'expected %s, nothing raised' % (getattr(exc_types, '__name__', exc_types),))
        return False

    def snap(self, x, knots, eps=Fraction(1, 10 ** 5)):
        """snap-zone precondition (DESIGN 2.5): x equals a knot or is farther than eps from it"""
        seen = []
        for k in knots:
            if any(k is s for s in seen):
                continue
            seen.append(k)
            d = x - k
            if isinstance(d, SymReal) and d.is_const():
                d = d.cval()
            if not isinstance(d, SymReal):
                self.assume(d == 0 or abs(d) > eps)
            else:
                self.assume(self.any_of([d == 0, d > eps, d < -eps]))

    def in_range(self, x, lo, hi, open_lo=False, open_hi=False):
        self.assume((x > lo) if open_lo else (x >= lo))
        self.assume((x < hi) if open_hi else (x <= hi))


class SymCx(BaseCx):
    symbolic = True

    def __init__(self, eng):
        BaseCx.__init__(self)
        self.eng = eng

    def real(self, name, lo=None, hi=None, positive=False, param=False):
        x = self.eng.fresh(name, positive=positive, param=param)
        if positive:
            self.eng.assume(x > 0, check=False)
        if lo is not None:
            self.eng.assume(x >= lo, check=False)
        if hi is not None:
            self.eng.assume(x <= hi, check=False)
        return x

    def const(self, x):
        if isinstance(x, SymReal):
            return x
        return SymReal.const(Fraction(x))

    def angle(self, name, index=0):
        """an angle in degrees (any real); its cos/sin are the symbolic pair (cos!index, sin!index) on the unit circle"""
        return self.real(name)

    def assume(self, cond, check=True):
        self.eng.assume(cond, check=check)

    def any_of(self, conds):
        out = None
        for c in conds:
            if c is True:
                return True
            if c is False:
                continue
            out = c if out is None else (out | c)
        return False if out is None else out

    def all_of(self, conds):
        out = None
        for c in conds:
            if c is False:
                return False
            if c is True:
                continue
            out = c if out is None else (out & c)
        return True if out is None else out

    def not_(self, c):
        if isinstance(c, SymBool):
            return ~c
        return not c

    def holds(self, cond):
        """decide a condition on this path (forks)"""
        return bool(cond)

    def _finite(self, name, *xs):
        for x in xs:
            if isinstance(x, _float) and (x != x or x in (_float('inf'), -_float('inf'))):
                self.fail(name, 'non-finite value %r' % x)
                return False
            if not isinstance(x, (int, _float, Fraction, SymReal)) or isinstance(x, bool) and False:
                self.fail(name, 'not a number: %r' % (x,))
                return False
        return True

    def _eq_num(self, name, a, b):
        if self._finite(name, a, b):
            self.obligations.append(('eq', name, a, b))

    def ge(self, name, a, b):
        if self._finite(name, a, b):
            self.obligations.append(('ge', name, a, b))

    def gt(self, name, a, b):
        if self._finite(name, a, b):
            self.obligations.append(('gt', name, a, b))

    def check(self, name, cond, detail=''):
        if isinstance(cond, SymBool):
            self.obligations.append(('cond', name, cond))
        elif cond:
            self.obligations.append(('ok', name))
        else:
            self.obligations.append(('fail', name, detail or 'condition is false'))

    def sqrt(self, x):
        return core.sym_sqrt(x)

    def value(self, x):
        """concrete value of a constant"""
        if isinstance(x, SymReal):
            return x.cval()
        return Fraction(x)


class AssumptionFailed(Exception):
    pass


class ConcCx(BaseCx):
    symbolic = False

    def __init__(self, values, rtol=1e-6):
        BaseCx.__init__(self)
        self.values = values
        self.rtol = rtol
        # comparisons are relative to max(floor, |a|, |b|); the floor is 1 unless the replayed candidate states the
        # magnitude of its data (micro-scale stress candidates: a deviation of 1e-9 is 100 % there)
        try:
            self.floor = float(Fraction(values.get('__floor__', 1)))
        except Exception:
            self.floor = 1.0
        self.failed = []
        self.checked = 0
        self.used = set()

    def real(self, name, lo=None, hi=None, positive=False, param=False):
        if name not in self.values:
            v = 1.0 if positive else 0.0
            if lo is not None:
                v = max(v, _float(lo))
            if hi is not None:
                v = min(v, _float(hi))
        else:
            v = _float(Fraction(self.values[name]))
        self.used.add(name)
        if positive and not v > 0:
            raise AssumptionFailed('%s > 0' % name)
        if lo is not None and not v >= _float(lo) - 1e-12:
            raise AssumptionFailed('%s >= lo' % name)
        if hi is not None and not v <= _float(hi) + 1e-12:
            raise AssumptionFailed('%s <= hi' % name)
        return v

    def const(self, x):
        return _float(x)

    def angle(self, name, index=0):
        """replay: the angle is recovered from the model's (cos, sin) pair"""
        import math
        c, s = self.values.get('cos!%d' % index), self.values.get('sin!%d' % index)
        if c is not None and s is not None:
            return math.degrees(math.atan2(_float(Fraction(s)), _float(Fraction(c))))
        return self.real(name)

    def assume(self, cond, check=True):
        if not cond:
            raise AssumptionFailed('an assumption of the harness does not hold for the replayed values')

    def any_of(self, conds):
        return any(conds)

    def all_of(self, conds):
        return all(conds)

    def not_(self, c):
        return not c

    def holds(self, cond):
        return bool(cond)

    def _scale(self, a, b):
        return max(self.floor, abs(a), abs(b))

    def _eq_num(self, name, a, b):
        self.checked += 1
        a, b = _float(a), _float(b)
        if not abs(a - b) <= self.rtol * self._scale(a, b):
            self.failed.append((name, 'eq: %r vs %r' % (a, b)))

    def ge(self, name, a, b):
        self.checked += 1
        a, b = _float(a), _float(b)
        if not a >= b - self.rtol * self._scale(a, b):
            self.failed.append((name, 'ge: %r vs %r' % (a, b)))

    def gt(self, name, a, b):
        self.ge(name, a, b)

    def check(self, name, cond, detail=''):
        self.checked += 1
        if not cond:
            self.failed.append((name, detail or 'condition is false'))

    def fail(self, name, detail=''):
        self.failed.append((name, detail))

    def expect_raises(self, name, exc_types, fn, *a, **k):
        self.checked += 1
        try:
            fn(*a, **k)
        except exc_types:
            return True
        self.failed.append((name, 'expected exception, nothing raised'))
        return False

    def sqrt(self, x):
        import math
        return math.sqrt(x)

    def value(self, x):
        return Fraction(x)
