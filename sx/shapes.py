"""Generic symbolic shapes (curve / surface / volume) for the shape-preserving-operation properties."""
import copy
from fractions import Fraction as F

from . import families as fam
from . import geo

DIRS = 'uvw'


def spec(kind, degs, mults, dim=None, rational=False, lo=0, hi=1, doms=None, scaled=False, shifted=False, kscaled=False, tuple_kv=False):
    """doms: optional per-direction (lo, hi) knot domains (default: the same [lo, hi] everywhere).
    scaled: the control net is a fixed integer pattern times ONE symbolic factor `sc` > 0 (all sizes of the
    geometry, from micro to huge, with a single variable: absolute tolerances in the code show up as forks on sc)"""
    degs = tuple(degs)
    doms = list(doms) if doms else [(lo, hi)] * len(degs)
    kvs = [fam.pattern(p, m, d[0], d[1]) for p, m, d in zip(degs, mults, doms)]
    return dict(kind=kind, degs=degs, kvs=kvs, dim=dim or (2 if kind == 'curve' else 3), rational=rational, mults=tuple(mults), doms=doms, scaled=scaled, shifted=shifted, kscaled=kscaled, tuple_kv=tuple_kv)


def spec_name(sp):
    ends = [(k[0], k[-1]) for k in sp['kvs']]
    dom = '' if all(e == (0, 1) for e in ends) else (' dom[%s,%s]' % ends[0] if len(set(ends)) == 1 else ' dom' + 'x'.join('[%s,%s]' % e for e in ends))
    return '%s p%s m%s %s%s%s' % (sp['kind'], ','.join(map(str, sp['degs'])), ','.join(str(m) for m in sp['mults']), 'rat' if sp['rational'] else 'nonrat', dom, (' scaled' if sp.get('scaled') else '') + (' shifted' if sp.get('shifted') else '') + (' kscaled' if sp.get('kscaled') else '') + (' tuple-kv' if sp.get('tuple_kv') else ''))


def sibling_spec(sp):
    """another shape of the same kind / degrees / rationality with its own control net whose knot vectors AGREE with the
    original's on a long prefix and differ only near the end (last interior knot moved, or one added): the earlier
    customer of the same process in the "after a sibling" histories - memo keys built from a few local knots, from
    the parameter or from sizes collide on purpose."""
    kvs = []
    for p, kv in zip(sp['degs'], sp['kvs']):
        kv = [F(k) for k in kv]
        lo, hi = kv[p], kv[len(kv) - p - 1]
        interior = [k for k in kv[p + 1:len(kv) - p - 1]]
        if not interior:
            new = kv[:p + 1] + [lo + (hi - lo) * F(3, 4)] + kv[p + 1:]
        else:
            last = interior[-1]
            moved = last + (hi - last) / 2
            new = [moved if k == last and p < i < len(kv) - p - 1 else k for i, k in enumerate(kv)]
        kvs.append(new)
    out = dict(sp)
    out['kvs'] = kvs
    out['mults'] = tuple('sibling' for _ in sp['degs'])
    return out


def prime_with_sibling(cx, sp, op, **kw):
    """run `op` on a sibling shape first; whatever it does or raises must not matter afterwards"""
    sib, info = build(cx, sibling_spec(sp), prefix='S', **kw)
    try:
        op(sib, info)
    except Exception:
        pass
    return sib


def build(cx, sp, prefix='', **kw):
    degs, kvs = sp['degs'], sp['kvs']
    sizes = [len(k) - d - 1 for k, d in zip(kvs, degs)]
    Ks = [cx.consts(k) for k in kvs]
    if sp.get('shifted'):
        # every knot vector is moved by ONE symbolic offset (any magnitude): knots like time stamps, K + 1.7e9;
        # tolerances that scale with the knot VALUE instead of the knot spacing show up as forks on the offset
        sh = [cx.real(prefix + 'shift_' + DIRS[d]) for d in range(len(degs))]
        Ks = [[k + sh[d] for k in K] for d, K in enumerate(Ks)]
        kw = dict(kw)
        kw.setdefault('normalize_kv', False)
    if sp.get('kscaled'):
        # every knot vector is multiplied by ONE symbolic factor > 0 (knot spans of any width, 1e-9 .. 1e9)
        ks = [cx.real(prefix + 'kscale_' + DIRS[d], lo=0) for d in range(len(degs))]
        for a in ks:
            cx.assume(a > 0)
        Ks = [[k * ks[d] for k in K] for d, K in enumerate(Ks)]
        kw = dict(kw)
        kw.setdefault('normalize_kv', False)
    if sp.get('tuple_kv'):
        # knot vectors handed over as tuples and kept as they are (normalize_kv=False)
        Ks = [tuple(K) for K in Ks]
        kw = dict(kw)
        kw['normalize_kv'] = False
    n = 1
    for s in sizes:
        n *= s
    if sp.get('scaled'):
        sc = cx.real(prefix + 'sc', lo=0)
        cx.assume(sc > 0)
        P = [[sc * scaled_pattern(i, d, sizes) for d in range(sp['dim'])] for i in range(n)]
        W = [cx.const(F(1 + (i * 3) % 4, 2)) for i in range(n)] if sp['rational'] else None
    else:
        P = cx.points(prefix + 'P', n, sp['dim'])
        W = cx.reals(prefix + 'w', n, positive=True) if sp['rational'] else None
    if sp['kind'] == 'curve':
        obj = geo.make_curve(cx, degs[0], Ks[0], P, W, **kw)
    elif sp['kind'] == 'surface':
        obj = geo.make_surface(cx, degs[0], degs[1], Ks[0], Ks[1], sizes[0], sizes[1], P, W, **kw)
    else:
        obj = geo.make_volume(cx, degs, Ks, sizes, P, W, **kw)
    return obj, dict(K=Ks, P=P, W=W, sizes=sizes)


def scaled_pattern(i, d, sizes):
    """fixed, regular (no collapsed rows, no repeated points) integer control net used by `scaled` shapes"""
    idx, r = [], i
    for sz in reversed(list(sizes)):       # v fastest, then u, then w  ->  (..., u, v)
        idx.append(r % sz)
        r //= sz
    if len(sizes) == 1:
        u = idx[0]
        return F([3 * u, (u * u) % 5 + u, (2 * u + 1) % 3][d])
    if len(sizes) == 2:
        v, u = idx[0], idx[1]
        return F([4 * u + (v % 2), 3 * v + (u % 2), (u * v + u + 2 * v) % 4][d])
    v, u, w = idx[0], idx[1], idx[2]
    return F([4 * u + (v % 2), 3 * v + (w % 2), 5 * w + (u * v) % 3][d])


def pdim(obj):
    return obj.pdimension


def knotvectors(obj):
    if obj.pdimension == 1:
        return [list(obj.knotvector)]
    return [list(k) for k in obj.knotvector]


def degrees(obj):
    if obj.pdimension == 1:
        return [obj.degree]
    return list(obj.degree)


def sizes(obj):
    if obj.pdimension == 1:
        return [obj.ctrlpts_size]
    return [getattr(obj, 'ctrlpts_size_' + d) for d in DIRS[:obj.pdimension]]


def net(obj):
    """homogeneous control points for rational shapes, plain ones otherwise (copies)"""
    pts = obj.ctrlptsw if obj.rational else obj.ctrlpts
    return [list(p) for p in pts]


def snapshot(obj):
    return dict(kvs=knotvectors(obj), sizes=sizes(obj), net=net(obj), degs=degrees(obj))


def same_state(cx, name, obj, snap):
    cx.eq(name + '.degrees', degrees(obj), snap['degs'])
    cx.eq(name + '.sizes', sizes(obj), snap['sizes'])
    cx.eq(name + '.knotvectors', knotvectors(obj), snap['kvs'])
    cx.eq(name + '.ctrlpts', net(obj), snap['net'])


def domain(obj):
    out = []
    for kv, p in zip(knotvectors(obj), degrees(obj)):
        out.append((kv[p], kv[len(kv) - p - 1]))
    return out


def sym_params(cx, obj, names=DIRS, prefix=''):
    """one symbolic parameter per direction inside the closed domain"""
    out = []
    for (lo, hi), nm in zip(domain(obj), names):
        out.append(cx.real(prefix + nm, lo=lo, hi=hi, param=True))
    return out


def evaluate(obj, prm):
    if obj.pdimension == 1:
        return obj.evaluate_single(prm[0])
    return obj.evaluate_single(tuple(prm))


def multiplicity(cx, x, kv):
    return sum(1 for k in kv if cx.holds(k == x))


def count_le(cx, x, kv):
    return sum(1 for k in kv if cx.holds(k <= x))


def clone(obj):
    return copy.deepcopy(obj)
