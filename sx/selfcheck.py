"""Validation of the encoding (DESIGN 2.8), run at the start of every check:

(a) the repository's own test inputs are pushed through the proxies as *constant* SymReals; the exact
    rational results must agree (<= 1e-9 relative) with the float results of the same calls on the
    unshimmed code (Serval-style "run the existing suite through the symbolic interpreter");
(b) the canonical-form arithmetic is cross-checked against direct Fraction evaluation of randomly built
    expression trees at random rational points;
(c) (thorough tier, run.py) sampled nonlinear obligation queries are re-decided by cvc5.
"""
import json
import multiprocessing as mp
import random
from fractions import Fraction as F

KV3 = [0.0, 0.0, 0.0, 0.0, 0.33, 0.66, 1.0, 1.0, 1.0, 1.0]
CP2 = [[5.0, 5.0], [10.0, 10.0], [20.0, 15.0], [35.0, 15.0], [45.0, 10.0], [50.0, 5.0]]
WTS = [0.5, 2.0, 1.0, 1.5, 1.0, 0.25]


def _calls(lift):
    """the same call list with numbers lifted by `lift` (float or exact SymReal constant)"""
    from . import geo
    H, BS, NU, ops, L = geo.M('helpers'), geo.M('BSpline'), geo.M('NURBS'), geo.M('operations'), geo.M('linalg')
    out = {}
    kv = [lift(k) for k in KV3]
    for u in (0.0, 0.3, 0.5, 0.6, 1.0):
        s = H.find_span_linear(3, kv, 6, lift(u))
        out['span@%s' % u] = [s, H.find_span_binsearch(3, kv, 6, lift(u))]
        out['basis@%s' % u] = list(H.basis_function(3, kv, s, lift(u)))
        out['ders@%s' % u] = [list(r) for r in H.basis_function_ders(3, kv, s, lift(u), 2)]
    c = BS.Curve()
    c.degree = 3
    c.ctrlpts = [[lift(x) for x in p] for p in CP2]
    c.knotvector = [lift(k) for k in KV3]
    for u in (0.0, 0.3, 0.5, 0.6, 1.0):
        out['curve@%s' % u] = list(c.evaluate_single(lift(u)))
    out['curve_ders'] = [list(d) for d in c.derivatives(lift(0.35), 2)]
    n = NU.Curve()
    n.degree = 3
    n.ctrlpts = [[lift(x) for x in p] for p in CP2]
    n.weights = [lift(w) for w in WTS]
    n.knotvector = [lift(k) for k in KV3]
    for u in (0.0, 0.2, 0.5, 0.95):
        out['nurbs@%s' % u] = list(n.evaluate_single(lift(u)))
    out['nurbs_ders'] = [list(d) for d in n.derivatives(lift(0.2), 2)]
    ops.insert_knot(c, [lift(0.3)], [2])
    out['insert.kv'] = list(c.knotvector)
    out['insert.pt'] = list(c.evaluate_single(lift(0.45)))
    ops.refine_knotvector(n, [1])
    out['refine.pt'] = list(n.evaluate_single(lift(0.45)))
    A = [[lift(x) for x in r] for r in ([2.0, 1.0, -1.0], [-3.0, -1.0, 2.0], [-2.0, 1.0, 2.0])]
    b = [[lift(8.0)], [lift(-11.0)], [lift(-3.0)]]
    out['lu_solve'] = [list(r) for r in L.lu_solve(A, b)]
    out['det'] = L.matrix_determinant(A)
    # the whole table used by degree elevation / derivatives up to degree 16: integer-valued float code vs exact integers
    out['binom'] = [L.binomial_coefficient(k, i) for k in range(0, 17) for i in range(0, k + 1)]
    out['linspace'] = list(L.linspace(lift(0.0), lift(1.0), 7))
    return out


def _flatten(x, pre=''):
    if isinstance(x, dict):
        for k, v in x.items():
            yield from _flatten(v, pre + '/' + str(k))
    elif isinstance(x, (list, tuple)):
        for i, v in enumerate(x):
            yield from _flatten(v, '%s[%d]' % (pre, i))
    else:
        yield pre, x


def _symbolic_side(q):
    try:
        from . import core, geo
        geo.shim_all()
        core.reset_vars()
        lift = lambda x: core.SymReal.const(F(x))
        eng = core.Engine(profile=False)
        res = {}

        def harness(cx):
            res.update(_calls(lift))
        from .cx import SymCx
        eng.explore(harness, {}, SymCx)
        flat = {}
        for k, v in _flatten(res):
            if isinstance(v, core.SymReal):
                v = v.cval()
            flat[k] = str(F(v))
        q.put(('ok', flat))
    except BaseException as e:      # noqa
        import traceback
        q.put(('error', '%s: %s\n%s' % (type(e).__name__, e, traceback.format_exc()[-800:])))


def check_constants():
    """(a) returns (n_compared, problems)"""
    from . import geo
    geo.mods()
    fl = dict(_flatten(_calls(float)))
    ctx = mp.get_context('fork')
    q = ctx.Queue()
    p = ctx.Process(target=_symbolic_side, args=(q,))
    p.start()
    try:
        status, payload = q.get(timeout=120)
    except Exception:
        p.terminate()
        return 0, ['symbolic side produced no result']
    p.join(10)
    if status != 'ok':
        return 0, [payload]
    problems = []
    n = 0
    for k, v in fl.items():
        if k not in payload:
            problems.append('missing %s' % k)
            continue
        a, b = float(v), float(F(payload[k]))
        n += 1
        if abs(a - b) > 1e-9 * max(1.0, abs(a), abs(b)):
            problems.append('%s: float %r vs exact %r' % (k, a, b))
    return n, problems


def check_normal_form(seed=0, trees=60):
    """(b) random expression trees: SymReal normal form vs direct Fraction evaluation"""
    from . import core
    from .poly import Poly, RF
    rnd = random.Random(seed)
    core.reset_vars()
    vs = [core.SymReal(RF(Poly.var(core.VARS.get('x%d' % i)))) for i in range(4)]
    problems = []
    n = 0

    def build(depth):
        if depth == 0 or rnd.random() < 0.2:
            if rnd.random() < 0.6:
                i = rnd.randrange(4)
                return ('v', i)
            return ('c', F(rnd.randint(-5, 5), rnd.randint(1, 4)))
        op = rnd.choice('+-**/')
        return (op, build(depth - 1), build(depth - 1))

    def ev(t, env):
        if t[0] == 'v':
            return env[t[1]]
        if t[0] == 'c':
            return t[1]
        a, b = ev(t[1], env), ev(t[2], env)
        if t[0] == '+':
            return a + b
        if t[0] == '-':
            return a - b
        if t[0] == '*':
            return a * b
        return a / b

    for _ in range(trees):
        t = build(4)
        try:
            sym = ev(t, vs)
        except ZeroDivisionError:
            continue
        if not isinstance(sym, core.SymReal):
            continue
        for _ in range(3):
            pt = [F(rnd.randint(-9, 9), rnd.randint(1, 7)) for _ in range(4)]
            try:
                direct = ev(t, pt)
            except ZeroDivisionError:
                continue
            env = {core.VARS.idx['x%d' % i]: pt[i] for i in range(4)}
            den = sym.r.den_poly().evaluate(env) if sym.r.d else F(1)
            if den == 0:
                continue
            val = sym.r.n.evaluate(env) / den
            n += 1
            if val != direct:
                problems.append('normal form %s != direct %s' % (val, direct))
    core.reset_vars()
    return n, problems


def run(seed=0):
    n1, p1 = check_constants()
    n2, p2 = check_normal_form(seed)
    return {'constants_compared': n1, 'normal_form_points': n2, 'problems': (p1 + p2)[:10]}


def cvc5_diff(smt2_list, timeout_s=30):
    """(c) re-decide exported queries with the cvc5 binary; returns dict(agree, unknown, disagree)"""
    import os
    import subprocess
    import tempfile
    res = {'agree': 0, 'cvc5_unknown': 0, 'disagree': 0, 'details': []}
    for expected, text in smt2_list:
        with tempfile.NamedTemporaryFile('w', suffix='.smt2', delete=False) as f:
            f.write('(set-logic QF_NRA)\n' + text + '\n(check-sat)\n')
            path = f.name
        try:
            p = subprocess.run(['cvc5', '--lang', 'smt2', '--tlimit', str(timeout_s * 1000), path], capture_output=True, text=True, timeout=timeout_s + 10)
            out = p.stdout.strip().splitlines()[-1] if p.stdout.strip() else 'unknown'
            if '(error' in p.stdout or '(error' in p.stderr:
                out = 'unknown'
        except subprocess.TimeoutExpired:
            out = 'unknown'
        finally:
            os.unlink(path)
        if out == expected:
            res['agree'] += 1
        elif out in ('sat', 'unsat'):
            res['disagree'] += 1
            res['details'].append('z3 %s vs cvc5 %s' % (expected, out))
        else:
            res['cvc5_unknown'] += 1
    return res


if __name__ == '__main__':
    print(json.dumps(run(), indent=1))
