"""C10 - translation, rotation and scaling act on the shape as on its points."""
import math
from fractions import Fraction as F

from .. import core, geo, shapes
from ..shapes import spec, spec_name
from ..run import inst

PROPERTY = 'C10'
ASSUMPTIONS = [
    'cos/sin of the (symbolic) angle are a symbolic pair (c, s) with c^2 + s^2 = 1 shared by the code and the oracle: any angle',
    'rotation = the rotation of the two remaining coordinates (taken in increasing index order) about the axis through the start point of the (first) shape',
    'weights positive',
]
OUTSIDE = ['degrees > 3', 'containers of more than 2 shapes', 'rotation of 2-D shapes about axes other than z']
BOUNDS = {'quick': 'curve 2-D/3-D, surface (1,2), volume (1,1,1), container of 2 curves / 2 surfaces; translate, scale, rotate(axis 0,1,2); inplace True/False; rational and not; unclamped curve; shapes sampled on a segment before the transform',
          'thorough': 'additional degrees and knot patterns'}


def _trig(cx, theta):
    if cx.symbolic:
        return core.current_engine().trig(theta)
    r = math.radians(theta)
    return math.cos(r), math.sin(r)


def _elements(x):
    return [g for g in x]


def h_transform(cx, sps, kind, inplace, axis=2, container=False, touched=False, pre=None):
    ops = geo.M('operations')
    objs = []
    for i, sp in enumerate(sps):
        degs, kvs = sp['degs'], sp['kvs']
        sizes = [len(k) - d - 1 for k, d in zip(kvs, degs)]
        n = 1
        for s in sizes:
            n *= s
        P = cx.points('P%d_' % i, n, sp['dim'])
        W = cx.reals('w%d_' % i, n, positive=True) if sp['rational'] else None
        Ks = [cx.consts(k) for k in kvs]
        if sp['kind'] == 'curve':
            o = geo.make_curve(cx, degs[0], Ks[0], P, W, normalize_kv=False)
        elif sp['kind'] == 'surface':
            o = geo.make_surface(cx, degs[0], degs[1], Ks[0], Ks[1], sizes[0], sizes[1], P, W, normalize_kv=False)
        else:
            o = geo.make_volume(cx, degs, Ks, sizes, P, W, normalize_kv=False)
        objs.append(o)
    if container:
        multi = geo.M('multi')
        cls = {1: multi.CurveContainer, 2: multi.SurfaceContainer, 3: multi.VolumeContainer}[objs[0].pdimension]
        src = cls()
        for o in objs:
            src.add(o)
    else:
        src = objs[0]
    if container and touched:
        # the container was iterated before and the loop abandoned early (for ... break / next(iter(c)))
        for _g in src:
            break
        next(iter(src))
    if pre == 'segment':
        # only a segment of every shape (not starting at the domain start) was sampled earlier
        for o in objs:
            dom = shapes.domain(o)
            mid = [(d[0] + d[1]) / 2 for d in dom]
            if o.pdimension == 1:
                o.sample_size = 3
                o.evaluate(start=mid[0])
            elif o.pdimension == 2:
                o.sample_size = 2
                o.evaluate(start_u=mid[0], start_v=mid[1])
            else:
                o.sample_size = 2
                o.evaluate(start_u=mid[0], start_v=mid[1], start_w=mid[2])
    elif pre == 'evalpts':
        for o in objs:
            o.sample_size = 2 if o.pdimension > 1 else 3
            o.evalpts
    origs = [shapes.clone(o) for o in objs]
    snaps = [shapes.snapshot(o) for o in objs]
    dim = sps[0]['dim']
    first = origs[0]
    start = [d[0] for d in shapes.domain(first)]
    if kind == 'translate':
        vec = cx.reals('t', dim)
        res = ops.translate(src, vec, inplace=inplace)
        amap = lambda pt: [x + v for x, v in zip(pt, vec)]
    elif kind == 'scale':
        k = cx.real('k')
        res = ops.scale(src, k, inplace=inplace)
        amap = lambda pt: [x * k for x in pt]
    else:
        theta = cx.angle('theta')
        res = ops.rotate(src, theta, axis=axis, inplace=inplace)
        c, s = _trig(cx, theta)
        O = shapes.evaluate(first, start)
        ax = 2 if dim == 2 else axis
        i, j = [d for d in range(3) if d != ax][:2]
        if dim == 2:
            i, j = 0, 1

        def amap(pt):
            q = [x - o for x, o in zip(pt, O)]
            out = list(q)
            out[i] = q[i] * c - q[j] * s
            out[j] = q[j] * c + q[i] * s
            return [x + o for x, o in zip(out, O)]
    cx.check('returns_same_object' if inplace else 'returns_new_object', (res is src) == inplace, 'result is input: %s' % (res is src))
    outs = _elements(res)
    cx.check('element_count', len(outs) == len(objs))
    for e, (o, orig, snap, out) in enumerate(zip(objs, origs, snaps, outs)):
        nm = 'elem%d' % e
        if not inplace:
            cx.check(nm + '.new_element', out is not o)
            shapes.same_state(cx, nm + '.input_unchanged', o, snap)
        else:
            cx.check(nm + '.same_element', out is o)
        if orig.rational:
            cx.eq(nm + '.weights', list(out.weights), list(orig.weights))
        cx.eq(nm + '.knotvectors', shapes.knotvectors(out), shapes.knotvectors(orig))
        cx.eq(nm + '.sizes', shapes.sizes(out), shapes.sizes(orig))
        prm = shapes.sym_params(cx, orig, prefix='e%d' % e)
        cx.eq(nm + '.point', shapes.evaluate(out, prm), amap(shapes.evaluate(orig, prm)))


def instances(tier):
    out = []
    quick = tier == 'quick'
    from .. import families as fam
    base = [
        spec('curve', (2,), ((1,),), rational=False, dim=2), spec('curve', (2,), ((1,),), rational=True, dim=2),
        spec('curve', (3,), ((),), rational=True, dim=3), spec('curve', (1,), ((1, 1),), rational=False, dim=3),
        spec('surface', (1, 2), ((), (1,)), rational=False), spec('surface', (1, 2), ((), (1,)), rational=True),
        spec('volume', (1, 1, 1), ((), (), ()), rational=True), spec('volume', (1, 1, 2), ((1,), (), ()), rational=False),
    ]
    unclamped = dict(kind='curve', degs=(2,), kvs=[fam.unclamped_uniform(2, 4)], dim=3, rational=True, mults=('unclamped',))
    base.append(unclamped)
    unclamped2 = dict(kind='curve', degs=(1,), kvs=[fam.unclamped_unit(1, 3)], dim=2, rational=False, mults=('unclamped-unit',))
    base.append(unclamped2)
    if not quick:
        base += [spec('curve', (3,), ((1, 2),), rational=True, dim=3), spec('surface', (2, 2), ((1,), ()), rational=True), spec('surface', (2, 1), ((1, 1), ()), rational=False),
                 spec('curve', (4,), ((2,),), rational=False, dim=3), spec('curve', (5,), ((),), rational=True, dim=2), spec('surface', (3, 2), ((), (1,)), rational=True),
                 spec('volume', (2, 1, 2), ((), (1,), ()), rational=True), spec('volume', (1, 2, 1), ((1,), (), (1,)), rational=False)]
    for sp in base:
        for inplace in (False, True):
            out.append(inst('%s translate inplace=%s' % (spec_name(sp), inplace), h_transform, timeout=900, sps=[sp], kind='translate', inplace=inplace))
            out.append(inst('%s scale inplace=%s' % (spec_name(sp), inplace), h_transform, timeout=900, sps=[sp], kind='scale', inplace=inplace))
            axes = (2,) if sp['dim'] == 2 else (0, 1, 2)
            for ax in axes:
                if quick and sp['kind'] == 'volume' and inplace and ax != 1:
                    continue
                out.append(inst('%s rotate axis%d inplace=%s' % (spec_name(sp), ax, inplace), h_transform, timeout=1800, sps=[sp], kind='rotate', inplace=inplace, axis=ax))
    for sp in (spec('curve', (2,), ((1,),), rational=True, dim=3), spec('surface', (1, 2), ((), (1,)), rational=False), spec('volume', (1, 1, 1), ((), (), ()), rational=True)):
        for pre in ('segment', 'evalpts'):
            for inplace in (False, True):
                for kind in ('translate', 'scale', 'rotate'):
                    out.append(inst('%s (%s sampled before) %s inplace=%s' % (spec_name(sp), pre, kind, inplace), h_transform, timeout=1800, sps=[sp], kind=kind, inplace=inplace, axis=2, pre=pre))
    # containers
    c2 = [spec('curve', (2,), ((1,),), rational=True, dim=3), spec('curve', (1,), ((1,),), rational=False, dim=3)]
    s2 = [spec('surface', (1, 1), ((), ()), rational=True), spec('surface', (1, 2), ((), ()), rational=False)]
    cu = [unclamped, spec('curve', (1,), ((),), rational=False, dim=3)]
    for nm, lst in (('curves', c2), ('surfaces', s2), ('unclamped-first', cu)):
        for inplace in (False, True):
            out.append(inst('container %s translate inplace=%s' % (nm, inplace), h_transform, timeout=1200, sps=lst, kind='translate', inplace=inplace, container=True))
            out.append(inst('container %s scale inplace=%s' % (nm, inplace), h_transform, timeout=1200, sps=lst, kind='scale', inplace=inplace, container=True))
            for ax in (0, 2):
                out.append(inst('container %s rotate axis%d inplace=%s' % (nm, ax, inplace), h_transform, timeout=2400, sps=lst, kind='rotate', inplace=inplace, axis=ax, container=True))
    for inplace in (False, True):
        out.append(inst('container curves (iterated before) translate inplace=%s' % inplace, h_transform, timeout=1200, sps=c2, kind='translate', inplace=inplace, container=True, touched=True))
        out.append(inst('container surfaces (iterated before) scale inplace=%s' % inplace, h_transform, timeout=1200, sps=s2, kind='scale', inplace=inplace, container=True, touched=True))
        out.append(inst('container curves (iterated before) rotate axis2 inplace=%s' % inplace, h_transform, timeout=2400, sps=c2, kind='rotate', inplace=inplace, axis=2, container=True, touched=True))
    return out
