"""C16 - linear-algebra routines satisfy their defining equations on every call."""
from fractions import Fraction as F
from math import comb

from .. import families as fam
from .. import geo, oracles
from ..run import inst

PROPERTY = 'C16'
ASSUMPTIONS = [
    'equations are checked whenever the routine returns (paths ending in ZeroDivisionError = "no result" are not claimed, except for diagonally dominant / collocation matrices where such a path must be infeasible)',
    'determinant / inverse: matrix non-singular (Leibniz determinant != 0)',
]
OUTSIDE = ['matrix sizes > 4 (lu_solve) / > 3 (pivoting routines: abs-comparisons fork over row orders)', 'IEEE rounding / conditioning']
OPTS = {'thorough': {'max_paths': 15000}}
BOUNDS = {'quick': 'lu_solve n<=3, lu_factor/inverse/determinant/pivot n<=3 (n=3 with partly concrete entries), 2-call histories n=2, helpers symbolic dims 2-3; LU-first two-call histories; matrix edited in place between two calls',
          'thorough': 'lu_solve n<=4, pivoting routines fully symbolic n=3 (up to 5000 paths each); histories: n=2 both matrices symbolic, n=3 first matrix concrete (3 row-swap patterns) and second symbolic'}


def _matrix(cx, n, name='a', concrete=None):
    """symbolic n x n matrix; concrete: {(i,j): value} overrides"""
    concrete = concrete or {}
    return [[(cx.const(concrete[(i, j)]) if (i, j) in concrete else cx.real('%s%d%d' % (name, i, j))) for j in range(n)] for i in range(n)]


def _matmul(A, B):
    return [[sum((A[i][k] * B[k][j] for k in range(1, len(B))), A[i][0] * B[0][j]) for j in range(len(B[0]))] for i in range(len(A))]


def _copy(A):
    return [list(r) for r in A]


def _ident(n):
    return [[1 if i == j else 0 for j in range(n)] for i in range(n)]


def _nonsingular(cx, A):
    det = oracles.leibniz_det(A)
    cx.assume(det != 0)
    return det


def h_lu_solve(cx, n, m=1, which='lu_solve', concrete=None):
    L = geo.M('linalg')
    A = _matrix(cx, n, concrete=concrete)
    B = [[cx.real('b%d%d' % (i, j)) for j in range(m)] for i in range(n)]
    A0, B0 = _copy(A), _copy(B)
    try:
        X = getattr(L, which)(A, B)
    except ZeroDivisionError:
        cx.check('no_result', True)
        return
    cx.eq('A.x==b', _matmul(A0, X), B0)
    cx.eq('A_unmodified', A, A0)
    cx.eq('b_unmodified', B, B0)


def h_solve_shared_rows(cx, n, which):
    """right-hand side built with the constant-rows idiom  b = [row] * n  (all rows are the SAME list object)"""
    L = geo.M('linalg')
    A = _matrix(cx, n)
    row = cx.reals('r', 2)
    B = [row] * n
    A0 = _copy(A)
    try:
        X = getattr(L, which)(A, B)
    except ZeroDivisionError:
        cx.check('no_result', True)
        return
    cx.eq('A.x==b', _matmul(A0, X), [list(row) for _ in range(n)])
    cx.eq('b_unmodified', [list(r) for r in B], [list(row) for _ in range(n)])


def h_decomposition(cx, n):
    L = geo.M('linalg')
    A = _matrix(cx, n)
    A0 = _copy(A)
    ml, mu = L.lu_decomposition(A)
    nz = True
    for i in range(n):
        if not cx.holds(mu[i][i] != 0):
            nz = False
    for i in range(n):
        cx.eq('L_unit_diag[%d]' % i, ml[i][i], 1)
        for j in range(i + 1, n):
            cx.eq('L_lower[%d][%d]' % (i, j), ml[i][j], 0)
        for j in range(i):
            cx.eq('U_upper[%d][%d]' % (i, j), mu[i][j], 0)
    if nz:
        cx.eq('L.U==A', _matmul(ml, mu), A0)


def h_pivot(cx, n, concrete=None):
    L = geo.M('linalg')
    M = _matrix(cx, n, 'm', concrete)
    M0 = _copy(M)
    mp, p, sign = L.matrix_pivot(M, sign=True)
    cx.eq('input_unmodified', M, M0)
    # genuine permutation matrix
    for i in range(n):
        for j in range(n):
            cx.check('P01[%d][%d]' % (i, j), cx.holds(p[i][j] == 0) or cx.holds(p[i][j] == 1))
        cx.eq('P_row_sum[%d]' % i, sum(p[i][1:], p[i][0]), 1)
        cx.eq('P_col_sum[%d]' % i, sum((p[r][i] for r in range(1, n)), p[0][i]), 1)
    cx.eq('MP==P.M', mp, _matmul(p, M0))
    cx.eq('sign==det(P)', sign, oracles.leibniz_det(p))
    # partial pivoting: the diagonal entry dominates its column below
    mp2, p2 = L.matrix_pivot(M0)
    cx.eq('sign_flag_irrelevant', [mp2, p2], [mp, p])


def h_inverse(cx, n, concrete=None):
    L = geo.M('linalg')
    A = _matrix(cx, n, concrete=concrete)
    A0 = _copy(A)
    _nonsingular(cx, A0)
    try:
        inv = L.matrix_inverse(A)
    except ZeroDivisionError:
        cx.check('no_result', True)
        return
    cx.eq('A.inv==I', _matmul(A0, inv), _ident(n))
    cx.eq('inv.A==I', _matmul(inv, A0), _ident(n))


def h_determinant(cx, n, concrete=None):
    L = geo.M('linalg')
    A = _matrix(cx, n, concrete=concrete)
    A0 = _copy(A)
    det = _nonsingular(cx, A0)
    cx.eq('det==leibniz', L.matrix_determinant(A), det)


def h_diag_dominant(cx, n):
    """strictly diagonally dominant (by rows): lu_solve must return, and correctly"""
    L = geo.M('linalg')
    A = _matrix(cx, n)
    bound = [[cx.real('m%d%d' % (i, j), lo=0) for j in range(n)] for i in range(n)]
    for i in range(n):
        tot = 0
        for j in range(n):
            if i != j:
                cx.assume(A[i][j] <= bound[i][j], check=False)
                cx.assume(A[i][j] >= -bound[i][j], check=False)
                tot = tot + bound[i][j]
        cx.assume(cx.any_of([A[i][i] > tot, A[i][i] < -tot]), check=False)
    B = [[cx.real('b%d' % i)] for i in range(n)]
    A0 = _copy(A)
    X = L.lu_solve(A, B)      # a ZeroDivisionError here is a violation (escapes the harness)
    cx.eq('A.x==b', _matmul(A0, X), B)


def h_collocation(cx, p, n, family):
    """spline collocation matrix of n data points at rational parameters: lu_solve returns and solves"""
    L, Fit = geo.M('linalg'), geo.M('fitting')
    if family == 'uniform':
        uk = [F(i, n - 1) for i in range(n)]
    elif family == 'geometric':
        raw = [F(2 ** i - 1) for i in range(n)]
        uk = [x / raw[-1] for x in raw]
    else:
        raw = [F(0)] + [F(1, 3) + F(i, 10 * n) for i in range(1, n - 1)] + [F(1)]
        uk = raw
    uk = cx.consts(uk)
    kv = Fit.compute_knot_vector(p, n, uk)
    pts = cx.points('Q', n, 2)
    A = Fit._build_coeff_matrix(p, kv, uk, pts)
    A0 = _copy(A)
    X = L.lu_solve(A, pts)
    cx.eq('A.x==b', _matmul(A0, X), pts)


FIRST3 = {'swap01': [[1, 2, 3], [4, 5, 6], [2, 1, 1]], 'swap02-12': [[1, 2, 3], [4, 5, 6], [7, 8, 10]], 'swap12': [[5, 1, 1], [1, 1, 2], [2, 4, 1]]}


def h_history(cx, n, second, first=None, first_call='pivot'):
    """results do not depend on which routines ran before (memoised identity matrix, caches)"""
    L = geo.M('linalg')
    if first is None:
        M1 = _matrix(cx, n, 'm')
        # force a row swap in the first column
        cx.assume(M1[1][0] > M1[0][0], check=False)
        cx.assume(M1[0][0] > 0, check=False)
    else:
        # concrete first matrix (the memoised state a first call can leave behind depends on its row swaps only)
        M1 = [cx.consts([F(x) for x in row]) for row in FIRST3[first]]
    if first_call == 'pivot':
        L.matrix_pivot(M1)
    else:
        # an earlier customer of the factorisation routines (its own matrix, its own right-hand side)
        try:
            if first_call == 'lu_solve':
                L.lu_solve(M1, [[cx.real('c%d' % i)] for i in range(n)])
            elif first_call == 'determinant':
                L.matrix_determinant(M1)
            else:
                L.matrix_inverse(M1)
        except ZeroDivisionError:
            pass
    ident = L.matrix_identity(n)
    cx.eq('identity_after_pivot', ident, _ident(n))
    A = _matrix(cx, n, 'a')
    A0 = _copy(A)
    if second == 'inverse':
        _nonsingular(cx, A0)
        try:
            inv = L.matrix_inverse(A)
        except ZeroDivisionError:
            return
        cx.eq('A.inv==I', _matmul(A0, inv), _ident(n))
    elif second == 'pivot':
        mp, p = L.matrix_pivot(A)
        cx.eq('MP==P.M', mp, _matmul(p, A0))
        for i in range(n):
            cx.eq('P_row_sum[%d]' % i, sum(p[i][1:], p[i][0]), 1)
    elif second == 'determinant':
        det = _nonsingular(cx, A0)
        cx.eq('det==leibniz', L.matrix_determinant(A), det)
    elif second == 'lu_factor':
        B = [[cx.real('b%d' % i)] for i in range(n)]
        try:
            X = L.lu_factor(A, B)
        except ZeroDivisionError:
            return
        cx.eq('A.x==b', _matmul(A0, X), B)


def h_reuse_matrix(cx, n, which):
    """the caller solves, then edits ITS matrix in place (same list objects) and solves again: the second answer
    belongs to the edited matrix"""
    L = geo.M('linalg')
    A = _matrix(cx, n, 'a')
    B = [[cx.real('b%d' % i)] for i in range(n)]
    try:
        if which == 'lu_solve':
            L.lu_solve(A, B)
        elif which == 'lu_decomposition':
            L.lu_decomposition(A)
        elif which == 'determinant':
            L.matrix_determinant(A)
        else:
            L.matrix_inverse(A)
    except ZeroDivisionError:
        pass
    d = cx.real('d')
    A[0][0] = A[0][0] + d
    A[n - 1][0] = A[n - 1][0] - d
    A0 = _copy(A)
    if which == 'lu_solve':
        try:
            X = L.lu_solve(A, B)
        except ZeroDivisionError:
            return
        cx.eq('A.x==b', _matmul(A0, X), B)
    elif which == 'lu_decomposition':
        try:
            Lm, U = L.lu_decomposition(A)
        except ZeroDivisionError:
            return
        ok = True
        for i in range(n):
            for j in range(n):
                if i < j and not cx.holds(Lm[i][j] == 0):
                    ok = False
        # (when a zero pivot was met the factors are not claimed)
        piv = 1
        for i in range(n):
            piv = piv * U[i][i]
        if cx.holds(piv != 0):
            cx.eq('L.U==A', _matmul(Lm, U), A0)
    elif which == 'determinant':
        det = _nonsingular(cx, A0)
        cx.eq('det==leibniz', L.matrix_determinant(A), det)
    else:
        _nonsingular(cx, A0)
        try:
            inv = L.matrix_inverse(A)
        except ZeroDivisionError:
            return
        cx.eq('A.inv==I', _matmul(A0, inv), _ident(n))


def h_vectors(cx, dim):
    L = geo.M('linalg')
    a = cx.reals('a', dim)
    b = cx.reals('b', dim)
    k = cx.real('k')
    cx.eq('dot', L.vector_dot(a, b), sum((x * y for x, y in zip(a[1:], b[1:])), a[0] * b[0]))
    a3 = a + [0] * (3 - dim)
    b3 = b + [0] * (3 - dim)
    cx.eq('cross', L.vector_cross(a, b), [a3[1] * b3[2] - a3[2] * b3[1], a3[2] * b3[0] - a3[0] * b3[2], a3[0] * b3[1] - a3[1] * b3[0]])
    mag = L.vector_magnitude(a)
    cx.eq('magnitude^2', mag * mag, sum((x * x for x in a[1:]), a[0] * a[0]))
    cx.ge('magnitude>=0', mag, 0)
    cx.eq('multiply', L.vector_multiply(a, k), [x * k for x in a])
    cx.eq('sum', L.vector_sum(a, b, k), [x + k * y for x, y in zip(a, b)])
    cx.eq('generate', L.vector_generate(a, b), [y - x for x, y in zip(a, b)])
    cx.eq('mean', L.vector_mean(a, b, a), [(2 * x + y) / 3 for x, y in zip(a, b)])
    cx.eq('point_translate', L.point_translate(a, b), [x + y for x, y in zip(a, b)])
    d = L.point_distance(a, b)
    cx.eq('point_distance^2', d * d, sum(((x - y) * (x - y) for x, y in zip(a[1:], b[1:])), (a[0] - b[0]) * (a[0] - b[0])))
    cx.eq('point_mid', L.point_mid(a, b), [(x + y) / 2 for x, y in zip(a, b)])
    try:
        nv = L.vector_normalize(a)
    except ValueError as e:
        if 'magnitude' in str(e):
            return
        raise
    cx.eq('normalize_unit', sum((x * x for x in nv[1:]), nv[0] * nv[0]), 1)
    for i in range(dim):
        cx.eq('normalize_parallel[%d]' % i, nv[i] * mag, a[i])


def h_matrices(cx, r, c, c2):
    L = geo.M('linalg')
    A = [[cx.real('a%d%d' % (i, j)) for j in range(c)] for i in range(r)]
    B = [[cx.real('b%d%d' % (i, j)) for j in range(c2)] for i in range(c)]
    k = cx.real('k')
    cx.eq('transpose', L.matrix_transpose(A), [[A[i][j] for i in range(r)] for j in range(c)])
    cx.eq('multiply', L.matrix_multiply(A, B), _matmul(A, B))
    cx.eq('scalar', L.matrix_scalar(A, k), [[x * k for x in row] for row in A])
    cx.eq('identity', L.matrix_identity(r), _ident(r))


def h_binomial(cx, kmax):
    L = geo.M('linalg')
    for k in range(kmax + 1):
        for i in range(kmax + 2):
            cx.eq('C(%d,%d)' % (k, i), L.binomial_coefficient(k, i), comb(k, i) if i <= k else 0)
    # Pascal recurrence
    for k in range(1, kmax + 1):
        for i in range(1, k + 1):
            cx.eq('pascal(%d,%d)' % (k, i), L.binomial_coefficient(k, i), L.binomial_coefficient(k - 1, i - 1) + L.binomial_coefficient(k - 1, i))


def h_linspace(cx, num):
    L = geo.M('linalg')
    a = cx.real('a')
    b = cx.real('b')
    cx.assume(cx.any_of([b - a > F(1, 1000), a - b > F(1, 1000)]), check=False)
    out = L.linspace(a, b, num)
    cx.check('len', len(out) == num, 'len=%d' % len(out))
    for i in range(min(num, len(out))):
        cx.eq('linspace[%d]' % i, out[i], a + (b - a) * F(i, max(1, num - 1)))


def h_frange(cx, start, stop, step):
    L = geo.M('linalg')
    out = list(L.frange(cx.const(start), cx.const(stop), cx.const(step)))
    exp = []
    x = F(start)
    while x < F(stop):
        exp.append(x)
        x += F(step)
    exp.append(F(stop))
    cx.eq('frange', out, cx.consts(exp))


def instances(tier):
    out = []
    quick = tier == 'quick'
    for n in ((1, 2, 3) if quick else (1, 2, 3, 4)):
        out.append(inst('lu_solve n%d' % n, h_lu_solve, timeout=900, n=n, m=2 if n <= 2 else 1))
        out.append(inst('lu_decomposition n%d' % n, h_decomposition, timeout=900, n=n))
    for which in ('lu_solve', 'lu_factor'):
        out.append(inst('%s n2 shared rhs rows' % which, h_solve_shared_rows, n=2, which=which))
    for n in (1, 2):
        out.append(inst('lu_factor n%d' % n, h_lu_solve, n=n, m=2, which='lu_factor'))
        out.append(inst('matrix_pivot n%d' % n, h_pivot, n=n))
        out.append(inst('matrix_inverse n%d' % n, h_inverse, n=n))
        out.append(inst('matrix_determinant n%d' % n, h_determinant, n=n))
    conc3 = {(0, 1): 2, (1, 2): -1, (2, 0): 3, (2, 2): 1, (1, 1): 0}
    for nm, c in ([('partly-concrete', conc3)] + ([] if quick else [('symbolic', None)])):
        out.append(inst('lu_factor n3 %s' % nm, h_lu_solve, timeout=1800, n=3, m=1, which='lu_factor', concrete=c))
        out.append(inst('matrix_pivot n3 %s' % nm, h_pivot, timeout=1800, n=3, concrete=c))
        out.append(inst('matrix_inverse n3 %s' % nm, h_inverse, timeout=1800, n=3, concrete=c))
        out.append(inst('matrix_determinant n3 %s' % nm, h_determinant, timeout=1800, n=3, concrete=c))
    for n in (2,):        # (n = 3: z3 cannot exclude a zero second pivot within the query budget)
        out.append(inst('diag_dominant n%d' % n, h_diag_dominant, timeout=1800, n=n))
    for p, n, famname in [(2, 4, 'uniform'), (3, 5, 'uniform'), (3, 6, 'geometric'), (2, 5, 'clustered')] + \
            ([] if quick else [(3, 8, 'uniform'), (4, 7, 'geometric'), (3, 9, 'clustered'), (5, 8, 'uniform')]):
        out.append(inst('collocation p%d n%d %s' % (p, n, famname), h_collocation, timeout=900, p=p, n=n, family=famname))
    for second in ('inverse', 'pivot', 'determinant', 'lu_factor'):
        out.append(inst('history pivot-then-%s n2' % second, h_history, timeout=900, n=2, second=second))
        for fc in ('lu_solve', 'determinant', 'inverse'):
            out.append(inst('history %s-then-%s n2' % (fc, second), h_history, timeout=900, n=2, second=second, first_call=fc))
        if not quick:
            for first in sorted(FIRST3):
                out.append(inst('history pivot[%s]-then-%s n3' % (first, second), h_history, timeout=2400, n=3, second=second, first=first))
    for which in ('lu_solve', 'lu_decomposition', 'determinant', 'inverse'):
        out.append(inst('matrix edited in place between two calls of %s n2' % which, h_reuse_matrix, timeout=900, n=2, which=which))
    for dim in (2, 3):
        out.append(inst('vectors dim%d' % dim, h_vectors, dim=dim))
    out.append(inst('matrices 2x3x2', h_matrices, r=2, c=3, c2=2))
    out.append(inst('matrices 3x2x4', h_matrices, r=3, c=2, c2=4))
    out.append(inst('binomial', h_binomial, kmax=8 if quick else 12))
    for num in ((2, 3, 7) if quick else (2, 3, 7, 16, 33)):
        out.append(inst('linspace n%d' % num, h_linspace, num=num))
    for a, b, s in [(0, 1, F(1, 4)), (0, 1, F(3, 10)), (2, 5, F(1, 2)), (0, 1, F(1, 3))]:
        out.append(inst('frange %s..%s step %s' % (a, b, s), h_frange, start=a, stop=b, step=s))
    return out
