"""C14 - export followed by import reproduces the geometry."""
import io
import json as _json
import os as _os
import shutil
import tempfile
from fractions import Fraction as F

from .. import core, geo, shapes
from ..shapes import spec, spec_name
from ..run import inst

PROPERTY = 'C14'
ASSUMPTIONS = [
    'every control coordinate, weight and knot is a symbol printed as an opaque token which the readers parse back (printed precision is outside the claim)',
    'symbolic mode: open() of geomdl._exchange / geomdl.compatibility is an in-memory file map; json.dumps/loads are the real json functions with symbolic numbers carried as token strings; os.path.isfile consults the file map. Float replay uses real files and real json',
    'weights positive',
]
OUTSIDE = ['YAML / libconfig (ruamel.yaml / libconf not installed)', 'binary formats', 'containers of more than 3 shapes', 'jinja2 templates']
BOUNDS = {'quick': 'JSON: curve / surface (spline, freeform, container trims) / volume, containers of 1..3; smesh, vmesh (sizes pairwise different); txt 1-D / 2-D; csv; compatibility *_file helpers; per-direction sampling densities with two equal and one different',
          'thorough': 'additional degrees / sizes, containers of 3 for every kind'}


# ------------------------------------------------------------------------------------------------ file system / json

class _MemFile(io.StringIO):
    def __init__(self, fs, name, mode):
        self._fs, self._name, self._mode = fs, name, mode
        io.StringIO.__init__(self, fs.files.get(name, '') if 'r' in mode else '')

    def close(self):
        if 'w' in self._mode or 'a' in self._mode:
            self._fs.files[self._name] = self.getvalue()
        io.StringIO.close(self)

    def __exit__(self, *a):
        self.close()
        return False


class _FakePath:
    def __init__(self, fs):
        self.fs = fs

    def isfile(self, f):
        return f in self.fs.files

    def isdir(self, f):
        return False

    def __getattr__(self, n):
        return getattr(_os.path, n)


class _FakeOs:
    def __init__(self, fs):
        self.path = _FakePath(fs)

    def __getattr__(self, n):
        return getattr(_os, n)


class _JsonShim:
    """real json with symbolic numbers travelling as token strings"""
    @staticmethod
    def dumps(data, **kw):
        return _json.dumps(data, default=lambda o: str(o) if isinstance(o, core.SymReal) else _json.JSONEncoder().default(o), **kw)

    @staticmethod
    def loads(text):
        def walk(x):
            if isinstance(x, dict):
                return {k: walk(v) for k, v in x.items()}
            if isinstance(x, list):
                return [walk(v) for v in x]
            if isinstance(x, str):
                t = core.token_value(x)
                return t if t is not None else x
            return x
        return walk(_json.loads(text))


class FS:
    def __init__(self, cx):
        self.cx = cx
        self.files = {}
        self.dir = None
        if cx.symbolic:
            ex, ex2, comp = geo.M('exchange'), geo.M('_exchange'), geo.M('compatibility')

            def fake_open(name, mode='r', *a, **k):
                if 'b' in mode:
                    raise IOError('binary files are outside the in-memory file map')
                if 'r' in mode and name not in self.files:
                    raise IOError('No such file: %s' % name)
                return _MemFile(self, name, mode)
            ex2.open = fake_open
            comp.open = fake_open
            ex.json = _JsonShim
            ex.os = _FakeOs(self)
        else:
            self.dir = tempfile.mkdtemp(prefix='sxc14-')

    def path(self, name):
        return name if self.cx.symbolic else _os.path.join(self.dir, name)

    def read(self, name):
        if self.cx.symbolic:
            return self.files[name]
        return open(self.path(name)).read()

    def cleanup(self):
        if self.dir:
            shutil.rmtree(self.dir, ignore_errors=True)


def with_fs(fn):
    def wrapper(cx, **kw):
        fs = FS(cx)
        try:
            return fn(cx, fs, **kw)
        finally:
            fs.cleanup()
    wrapper.__name__ = fn.__name__
    return wrapper


# ------------------------------------------------------------------------------------------------ comparison

def same_shape(cx, name, a, b, check_delta=True, check_eval=True):
    """b (imported) describes the same geometry as a (exported)"""
    cx.check(name + '.pdimension', a.pdimension == b.pdimension)
    if a.pdimension != b.pdimension:
        return
    cx.eq(name + '.degrees', shapes.degrees(b), shapes.degrees(a))
    cx.eq(name + '.sizes', shapes.sizes(b), shapes.sizes(a))
    cx.eq(name + '.knotvectors', shapes.knotvectors(b), shapes.knotvectors(a))
    cx.eq(name + '.ctrlpts', [list(p) for p in b.ctrlpts], [list(p) for p in a.ctrlpts])
    wa = list(a.weights) if a.rational else [1] * len(a.ctrlpts)
    wb = list(b.weights) if b.rational else [1] * len(b.ctrlpts)
    cx.eq(name + '.weights', wb, wa)
    if check_delta:
        da = [a.delta] if a.pdimension == 1 else list(a.delta)
        db = [b.delta] if b.pdimension == 1 else list(b.delta)
        cx.eq(name + '.delta', db, da)
    if check_eval:
        prm = shapes.sym_params(cx, a, prefix=name.replace('.', '_') + '_')
        cx.eq(name + '.point', shapes.evaluate(b, prm), shapes.evaluate(a, prm))


def _mk(cx, sp, tag, **kw):
    degs, kvs = sp['degs'], sp['kvs']
    sizes = [len(k) - d - 1 for k, d in zip(kvs, degs)]
    n = 1
    for s in sizes:
        n *= s
    P = cx.points('P' + tag, n, sp['dim'])
    W = cx.reals('w' + tag, n, positive=True) if sp['rational'] else None
    # interior knots symbolic (ordered), end knots 0/1
    Ks = []
    for d, kv in enumerate(kvs):
        vals = sorted(set(kv))
        syms = {}
        prev = None
        for i, v in enumerate(vals):
            if v == kv[0] or v == kv[-1]:
                s = cx.const(v)
            else:
                s = cx.real('k%s_%d_%d' % (tag, d, i))
                cx.assume(s - prev >= F(1, 100), check=False)
                cx.assume(cx.const(kv[-1]) - s >= F(1, 100), check=False)
            syms[v] = s
            prev = s
        Ks.append([syms[v] for v in kv])
    if sp['kind'] == 'curve':
        o = geo.make_curve(cx, degs[0], Ks[0], P, W, normalize_kv=False, **kw)
    elif sp['kind'] == 'surface':
        o = geo.make_surface(cx, degs[0], degs[1], Ks[0], Ks[1], sizes[0], sizes[1], P, W, normalize_kv=False, **kw)
    else:
        o = geo.make_volume(cx, degs, Ks, sizes, P, W, normalize_kv=False, **kw)
    return o


def _container(objs):
    multi = geo.M('multi')
    cls = {1: multi.CurveContainer, 2: multi.SurfaceContainer, 3: multi.VolumeContainer}[objs[0].pdimension]
    c = cls()
    for o in objs:
        c.add(o)
    return c


# ------------------------------------------------------------------------------------------------ harnesses

@with_fs
def h_json(cx, fs, sps, container, deltas=None, touched=False):
    ex = geo.M('exchange')
    objs = [_mk(cx, sp, str(i)) for i, sp in enumerate(sps)]
    for i, o in enumerate(objs):
        if o.pdimension == 1:
            o.delta = 0.25 if i % 2 == 0 else 0.125
        elif o.pdimension == 2:
            o.delta = [(0.5, 0.25), (0.25, 0.5), (0.5, 0.5)][i % 3] if deltas is None else deltas
        else:
            # per-direction sampling densities, two equal and one different (in every position)
            o.delta = [(0.5, 0.5, 0.25), (0.25, 0.5, 0.5), (0.5, 0.25, 0.5)][i % 3] if deltas is None else deltas
    src = _container(objs) if container else objs[0]
    if touched:
        # a loop over the object was abandoned earlier (e.g. an export that raised half-way)
        for _g in src:
            break
        try:
            ex.export_smesh(src, fs.path('no_such_dir/x/out.dat')) if src.pdimension == 2 and not cx.symbolic else None
        except Exception:
            pass
    cx.check('export_ok', ex.export_json(src, fs.path('shape.json')) is True)
    res = ex.import_json(fs.path('shape.json'))
    cx.check('count', len(res) == len(objs), 'imported %d shapes, exported %d' % (len(res), len(objs)))
    for i, (a, b) in enumerate(zip(objs, res)):
        same_shape(cx, 'shape%d' % i, a, b)


@with_fs
def h_json_trims(cx, fs, kind):
    """surface with trim curves (spline / freeform / container) survives JSON"""
    ex = geo.M('exchange')
    sp = spec('surface', (1, 2), ((), (1,)), rational=True)
    s = _mk(cx, sp, 's')
    s.delta = 0.5
    tsp = spec('curve', (2,), ((1,),), rational=(kind != 'spline_nonrat'), dim=2)
    trims = []
    if kind in ('spline', 'spline_nonrat', 'two_splines'):
        t1 = _mk(cx, tsp, 't')
        t1.delta = 0.25
        trims.append(t1)
        if kind == 'two_splines':
            t2 = _mk(cx, spec('curve', (1,), ((1, 1),), rational=False, dim=2), 'u')
            t2.delta = 0.5
            t2.opt = ['reversed', 1]
            trims.append(t2)
    elif kind == 'freeform':
        ff = geo.M('freeform').Freeform()
        pts = cx.points('F', 4, 2)
        ff.evaluate(points=[list(p) for p in pts])
        trims.append(ff)
    elif kind == 'container':
        multi = geo.M('multi')
        cc = multi.CurveContainer()
        t1 = _mk(cx, tsp, 't')
        t1.delta = 0.25
        t2 = _mk(cx, spec('curve', (1,), ((),), rational=True, dim=2), 'u')
        t2.delta = 0.5
        cc.add(t1)
        cc.add(t2)
        trims.append(cc)
    s.trims = trims
    ex.export_json(s, fs.path('trimmed.json'))
    r = ex.import_json(fs.path('trimmed.json'))[0]
    same_shape(cx, 'surface', s, r)
    cx.check('trim_count', len(r.trims) == len(trims), 'imported %d trims' % len(r.trims))
    # a second import in the same process (and a container of two trimmed surfaces) must give the same result
    r2 = ex.import_json(fs.path('trimmed.json'))[0]
    cx.check('second_import.trim_count', len(r2.trims) == len(trims), 'second import has %d trims' % len(r2.trims))
    both = _container([s, shapes.clone(s)])
    ex.export_json(both, fs.path('two.json'))
    rr = ex.import_json(fs.path('two.json'))
    cx.check('container.count', len(rr) == 2)
    for k, x in enumerate(rr):
        cx.check('container.trim_count[%d]' % k, len(x.trims) == len(trims), 'surface %d has %d trims' % (k, len(x.trims)))
    for i, (ta, tb) in enumerate(zip(trims, r.trims)):
        cx.check('trim%d.type' % i, ta.type == tb.type, '%s vs %s' % (ta.type, tb.type))
        if ta.type == 'spline':
            same_shape(cx, 'trim%d' % i, ta, tb)
            cx.check('trim%d.sense' % i, ta.opt_get('reversed') == tb.opt_get('reversed'))
        elif ta.type == 'freeform':
            cx.eq('trim%d.points' % i, [list(p) for p in tb.evalpts], [list(p) for p in ta.evalpts])
        else:
            cx.check('trim%d.len' % i, len(ta) == len(tb))
            for j, (ca, cb) in enumerate(zip(ta, tb)):
                same_shape(cx, 'trim%d_%d' % (i, j), ca, cb)


@with_fs
def h_smesh(cx, fs, sps):
    ex = geo.M('exchange')
    objs = [_mk(cx, sp, str(i)) for i, sp in enumerate(sps)]
    src = _container(objs) if len(objs) > 1 else objs[0]
    ex.export_smesh(src, fs.path('smesh.dat'))
    for i, a in enumerate(objs):
        fname = fs.path('smesh.%d.dat' % (i + 1)) if len(objs) > 1 else fs.path('smesh.dat')
        res = ex.import_smesh(fname)
        cx.check('file%d.count' % i, len(res) == 1)
        same_shape(cx, 'surface%d' % i, a, res[0], check_delta=False)
    if len(objs) == 1:
        # documented layout: dimension / degrees / sizes / knots u / knots v / points with u varying fastest? (v rows)
        lines = fs.read('smesh.dat').strip().split('\n')
        a = objs[0]
        cx.check('layout.header', lines[0].strip() == '3' and lines[1].split() == [str(a.degree_u), str(a.degree_v)]
                 and lines[2].split() == [str(a.ctrlpts_size_u), str(a.ctrlpts_size_v)])
        cx.check('layout.lines', len(lines) == 5 + a.ctrlpts_size_u * a.ctrlpts_size_v + 1, '%d lines' % len(lines))


@with_fs
def h_vmesh(cx, fs, sps):
    ex = geo.M('exchange')
    objs = [_mk(cx, sp, str(i)) for i, sp in enumerate(sps)]
    src = _container(objs) if len(objs) > 1 else objs[0]
    ex.export_vmesh(src, fs.path('vmesh.dat'))
    for i, a in enumerate(objs):
        fname = fs.path('vmesh.%d.dat' % (i + 1)) if len(objs) > 1 else fs.path('vmesh.dat')
        res = ex.import_vmesh(fname)
        cx.check('file%d.count' % i, len(res) == 1)
        same_shape(cx, 'volume%d' % i, a, res[0], check_delta=False)


def _floats(cx, text):
    """parse a printed number back (token in symbolic mode)"""
    t = core.token_value(text) if cx.symbolic else None
    return t if t is not None else float(text)


@with_fs
def h_txt(cx, fs, sp, two_dimensional, seps=None):
    ex = geo.M('exchange')
    a = _mk(cx, sp, 'a')
    kw = {}
    if seps:
        kw = {'separator': seps[0], 'col_separator': seps[1]}
    ex.export_txt(a, fs.path('cp.txt'), two_dimensional=two_dimensional, **kw)
    two_dimensional = two_dimensional and a.pdimension == 2      # export ignores the flag for curves
    res = ex.import_txt(fs.path('cp.txt'), two_dimensional=two_dimensional, **kw)
    net = shapes.net(a)
    if two_dimensional and a.pdimension == 2:
        pts, su, sv = res
        cx.check('size_u', su == a.ctrlpts_size_u, 'size_u %s' % su)
        cx.check('size_v', sv == a.ctrlpts_size_v, 'size_v %s' % sv)
        cx.eq('ctrlpts', [list(p) for p in pts], net)
        # documented layout: one line per u index, points of that row separated by the column separator
        lines = fs.read('cp.txt').strip().split('\n')
        cx.check('layout.lines', len(lines) == a.ctrlpts_size_u, '%d lines for size_u=%d' % (len(lines), a.ctrlpts_size_u))
        col = seps[1] if seps else ';'
        sep = seps[0] if seps else ','
        for i, line in enumerate(lines[:a.ctrlpts_size_u]):
            cells = line.split(col)
            cx.check('layout.cells[%d]' % i, len(cells) == a.ctrlpts_size_v)
            for j, cell in enumerate(cells[:a.ctrlpts_size_v]):
                cx.eq('layout.cell[%d][%d]' % (i, j), [_floats(cx, c.strip()) for c in cell.split(sep)], net[j + a.ctrlpts_size_v * i])
    else:
        cx.eq('ctrlpts', [list(p) for p in res], net)
    # a shape rebuilt from the file evaluates identically
    b = type(a)(normalize_kv=False)
    if a.pdimension == 1:
        b.degree = a.degree
        b.set_ctrlpts([list(p) for p in (res if not (two_dimensional and a.pdimension == 2) else res[0])])
        b.knotvector = list(a.knotvector)
    else:
        b.degree_u, b.degree_v = a.degree_u, a.degree_v
        pts = res[0] if two_dimensional else res
        b.set_ctrlpts([list(p) for p in pts], a.ctrlpts_size_u, a.ctrlpts_size_v)
        b.knotvector_u, b.knotvector_v = list(a.knotvector_u), list(a.knotvector_v)
    same_shape(cx, 'rebuilt', a, b, check_delta=False)


@with_fs
def h_csv(cx, fs, sp):
    ex = geo.M('exchange')
    a = _mk(cx, sp, 'a')
    ex.export_csv(a, fs.path('cp.csv'), point_type='ctrlpts')
    res = ex.import_csv(fs.path('cp.csv'))
    cx.eq('ctrlpts', [list(p) for p in res], shapes.net(a))
    lines = fs.read('cp.csv').strip().split('\n')
    cx.check('header', lines[0].startswith('dim 1') and len(lines) == 1 + len(a.ctrlpts), lines[0])


@with_fs
def h_compat_files(cx, fs, su, sv):
    """compatibility.*_file helpers on a su x sv grid of (x,y,z,w) points: documented one-line-per-u layout"""
    comp = geo.M('compatibility')
    P = cx.points('P', su * sv, 3)
    W = cx.reals('w', su * sv, positive=True)
    grid = [[P[j + sv * i] + [W[j + sv * i]] for j in range(sv)] for i in range(su)]
    comp._save_ctrlpts2d_file(grid, su, sv, fs.path('in.txt'))
    lines = fs.read('in.txt').strip().split('\n')
    cx.check('saved.lines', len(lines) == su, '%d lines for size_u=%d' % (len(lines), su))
    back, bu, bv = comp._read_ctrltps2d_file(fs.path('in.txt'))
    cx.check('read.sizes', (bu, bv) == (su, sv), 'read back sizes %s x %s' % (bu, bv))
    cx.eq('read.points', back, grid)
    comp.generate_ctrlptsw2d_file(fs.path('in.txt'), fs.path('w.txt'))
    gw, gu, gv = comp._read_ctrltps2d_file(fs.path('w.txt'))
    cx.check('weighted.sizes', (gu, gv) == (su, sv))
    cx.eq('weighted', gw, [[[c * pt[3] for c in pt[:3]] + [pt[3]] for pt in row] for row in grid])
    comp.generate_ctrlpts2d_weights_file(fs.path('w.txt'), fs.path('back.txt'))
    g2, _, _ = comp._read_ctrltps2d_file(fs.path('back.txt'))
    cx.eq('weights_roundtrip', g2, grid)
    comp.flip_ctrlpts2d_file(fs.path('in.txt'), fs.path('flip.txt'))
    fl, fu, fv = comp._read_ctrltps2d_file(fs.path('flip.txt'))
    cx.check('flip.sizes', (fu, fv) == (sv, su), 'flipped sizes %s x %s' % (fu, fv))
    cx.eq('flipped', fl, [[grid[i][j] for i in range(su)] for j in range(sv)])


def instances(tier):
    out = []
    quick = tier == 'quick'
    crv = [spec('curve', (2,), ((1,),), rational=True, dim=3), spec('curve', (3,), ((2,),), rational=False, dim=3), spec('curve', (1,), ((1, 1),), rational=True, dim=3)]
    srf = [spec('surface', (1, 2), ((1,), ()), rational=True), spec('surface', (2, 1), ((), (1, 1)), rational=False), spec('surface', (2, 2), ((), (1,)), rational=True)]
    vol = [spec('volume', (1, 2, 2), ((), (), (1,)), rational=True), spec('volume', (2, 1, 1), ((), (1,), (1, 1)), rational=False)]
    if not quick:
        crv += [spec('curve', (4,), ((1, 2),), rational=True, dim=3), spec('curve', (5,), ((),), rational=False, dim=3)]
        srf += [spec('surface', (3, 2), ((1,), (1, 1)), rational=True), spec('surface', (1, 3), ((1, 1, 1), ()), rational=False)]
        vol += [spec('volume', (1, 1, 3), ((1, 1), (1,), ()), rational=True), spec('volume', (2, 2, 1), ((), (1,), (1,)), rational=False)]
    for kind, lst in (('curve', crv), ('surface', srf), ('volume', vol)):
        for i, sp in enumerate(lst):
            out.append(inst('json single %s' % spec_name(sp), h_json, timeout=900, sps=[sp], container=False))
        if kind == 'volume':
            for dl in ((0.25, 0.5, 0.5), (0.5, 0.25, 0.5)):
                out.append(inst('json single %s delta%s' % (spec_name(lst[1]), dl), h_json, timeout=900, sps=[lst[1]], container=False, deltas=dl))
        if kind == 'surface':
            out.append(inst('json single %s delta(0.5, 0.5)' % spec_name(lst[0]), h_json, timeout=900, sps=[lst[0]], container=False, deltas=(0.5, 0.5)))
        out.append(inst('json container1 %s' % kind, h_json, timeout=900, sps=lst[:1], container=True))
        out.append(inst('json container2 %s' % kind, h_json, timeout=1200, sps=lst[:2], container=True))
        if (kind != 'volume' and (not quick or kind == 'curve')) or (kind == 'volume' and not quick):
            out.append(inst('json container3 %s' % kind, h_json, timeout=1800, sps=lst[:3], container=True))
    out.append(inst('json single surface after abandoned loop', h_json, timeout=900, sps=srf[:1], container=False, touched=True))
    out.append(inst('json container3 curve after abandoned loop', h_json, timeout=1800, sps=crv[:3], container=True, touched=True))
    out.append(inst('json container2 surface after abandoned loop', h_json, timeout=1800, sps=srf[:2], container=True, touched=True))
    for kind in ('spline', 'spline_nonrat', 'two_splines', 'freeform', 'container'):
        out.append(inst('json trims %s' % kind, h_json_trims, timeout=900, kind=kind))
    for sp in srf:
        out.append(inst('smesh %s' % spec_name(sp), h_smesh, timeout=900, sps=[sp]))
    out.append(inst('smesh container2', h_smesh, timeout=1200, sps=srf[:2]))
    for sp in vol:
        out.append(inst('vmesh %s' % spec_name(sp), h_vmesh, timeout=1200, sps=[sp]))
    out.append(inst('vmesh container2', h_vmesh, timeout=1800, sps=vol))
    for sp in crv[:2]:
        out.append(inst('txt %s' % spec_name(sp), h_txt, sp=sp, two_dimensional=False))
        out.append(inst('csv %s' % spec_name(sp), h_csv, sp=sp))
    for sp in srf:
        out.append(inst('txt 1d %s' % spec_name(sp), h_txt, sp=sp, two_dimensional=False))
        out.append(inst('txt 2d %s' % spec_name(sp), h_txt, sp=sp, two_dimensional=True))
        out.append(inst('csv %s' % spec_name(sp), h_csv, sp=sp))
    out.append(inst('txt 2d custom separators', h_txt, sp=srf[0], two_dimensional=True, seps=(' ', '|')))
    out.append(inst('txt 1d curve two_dimensional flag', h_txt, sp=crv[0], two_dimensional=True))
    for su, sv in ((2, 3), (3, 2), (2, 2)):
        out.append(inst('compatibility files %dx%d' % (su, sv), h_compat_files, su=su, sv=sv))
    return out
