"""C06 - removing a removable knot is exact and inverts insertion."""
from fractions import Fraction as F

from .. import geo, shapes
from ..shapes import spec, spec_name
from ..run import inst
from .c05 import expected_refined_kv

PROPERTY = 'C06'
ASSUMPTIONS = [
    'the removed knot was created by insertion (symbolic parameter strictly inside the domain, equal to a knot or > 1e-5 away from every knot) or by refinement, so it is removable',
    'weights positive',
]
OUTSIDE = ['degrees > 3 (quick) / 4 (thorough)', 'knots that are only approximately removable (tolerance 1e-3 of Eq. 5.30)']
BOUNDS = {'quick': 'curves p<=3 r<=p; surfaces degrees<=2 both directions; volumes degrees<=2; refine-then-remove curves p<=3; shifted knot vectors; insert/remove after a sibling; knot vectors times a symbolic factor (domains down to 4e-6)',
          'thorough': 'curves p<=4; surfaces to (3,2); volumes all directions, rational'}


def _vec(pd, d, val, fill=None):
    out = [fill] * pd
    out[d] = val
    return out


def _remove(obj, d, x, num, via):
    pd = obj.pdimension
    if via == 'operations':
        geo.M('operations').remove_knot(obj, _vec(pd, d, x), _vec(pd, d, num, 0))
    elif pd == 1:
        obj.remove_knot(x, num=num)
    else:
        kw = {shapes.DIRS[d]: x, 'num_' + shapes.DIRS[d]: num}
        obj.remove_knot(**kw)


def h_insert_remove(cx, sp, d, r, r2, via='operations', after_sibling=False):
    ops = geo.M('operations')
    obj, info = shapes.build(cx, sp)
    ref = shapes.clone(obj)
    orig = shapes.snapshot(obj)
    pd = obj.pdimension
    kv = orig['kvs'][d]
    p = orig['degs'][d]
    x = cx.real('x', param=True)
    cx.assume(x > kv[p], check=False)
    cx.assume(x < kv[len(kv) - p - 1], check=False)
    if sp.get('kscaled'):
        # knot vectors of any scale down to a domain of length 4e-6: still ten times the 1e-7 multiplicity tolerance
        cx.assume(kv[-1] - kv[0] >= F(4, 10 ** 6), check=False)
        cx.snap(x, kv, eps=F(2, 10 ** 7))
    else:
        cx.snap(x, kv, eps=F(1, 10 ** 6))      # (insertion and removal use the linear span search: only the 1e-7 multiplicity tolerance matters)
    s = shapes.multiplicity(cx, x, kv)
    if r > p - s:
        cx.assume(False)
    if after_sibling:
        def _same_on_sibling(sib, _i):
            ops.insert_knot(sib, _vec(pd, d, x), _vec(pd, d, r, 0))
            _remove(sib, d, x, r2, via)
        shapes.prime_with_sibling(cx, sp, _same_on_sibling)
    ops.insert_knot(obj, _vec(pd, d, x), _vec(pd, d, r, 0))
    mid = shapes.snapshot(obj)
    _remove(obj, d, x, r2, via)
    after = shapes.snapshot(obj)
    j = shapes.count_le(cx, x, kv)
    exp_kv = kv[:j] + [x] * (r - r2) + kv[j:]
    for dd in range(pd):
        nm = shapes.DIRS[dd]
        if dd == d:
            cx.eq('kv_%s' % nm, after['kvs'][dd], exp_kv)
            cx.check('size_%s' % nm, after['sizes'][dd] == mid['sizes'][dd] - r2, 'size %s -> %s after removing %d' % (mid['sizes'][dd], after['sizes'][dd], r2))
        else:
            cx.eq('kv_%s_untouched' % nm, after['kvs'][dd], orig['kvs'][dd])
            cx.check('size_%s_untouched' % nm, after['sizes'][dd] == orig['sizes'][dd])
    if r2 == r:
        cx.eq('ctrlpts_restored', after['net'], orig['net'])
    prm = shapes.sym_params(cx, ref)
    cx.eq('point', shapes.evaluate(obj, prm), shapes.evaluate(ref, prm))


def h_insert_remove_multi(cx, sp, dirs, via='operations'):
    """insert one knot in each of several directions, then remove them all in ONE call"""
    ops = geo.M('operations')
    obj, info = shapes.build(cx, sp)
    ref = shapes.clone(obj)
    orig = shapes.snapshot(obj)
    pd = obj.pdimension
    xs = [None] * pd
    nums = [0] * pd
    for d in dirs:
        kv = orig['kvs'][d]
        p = orig['degs'][d]
        x = cx.real('x' + shapes.DIRS[d], param=True)
        cx.assume(x > kv[p], check=False)
        cx.assume(x < kv[len(kv) - p - 1], check=False)
        cx.snap(x, kv, eps=F(1, 10 ** 6))
        if shapes.multiplicity(cx, x, kv) >= p:
            cx.assume(False)
        xs[d], nums[d] = x, 1
    ops.insert_knot(obj, list(xs), list(nums))
    if via == 'operations':
        ops.remove_knot(obj, list(xs), list(nums))
    else:
        kw = {}
        for d in dirs:
            kw[shapes.DIRS[d]] = xs[d]
            kw['num_' + shapes.DIRS[d]] = 1
        obj.remove_knot(**kw)
    after = shapes.snapshot(obj)
    cx.eq('kvs_restored', after['kvs'], orig['kvs'])
    cx.eq('sizes_restored', after['sizes'], orig['sizes'])
    cx.eq('ctrlpts_restored', after['net'], orig['net'])
    prm = shapes.sym_params(cx, ref)
    cx.eq('point', shapes.evaluate(obj, prm), shapes.evaluate(ref, prm))


def h_refine_remove(cx, sp, d, which, num, via='operations'):
    """refine direction d with density 1, then remove the `which`-th new knot num times"""
    ops = geo.M('operations')
    obj, info = shapes.build(cx, sp)
    ref = shapes.clone(obj)
    pd = obj.pdimension
    p = sp['degs'][d]
    ops.refine_knotvector(obj, _vec(pd, d, 1, 0))
    mid = shapes.snapshot(obj)
    exp = expected_refined_kv(sp['kvs'][d], p, 1)
    old = list(sp['kvs'][d])
    new_knots = []
    for k in exp:
        if k not in old and k not in new_knots:
            new_knots.append(k)
    xq = new_knots[which % len(new_knots)]
    x = cx.const(xq)
    _remove(obj, d, x, num, via)
    after = shapes.snapshot(obj)
    exp_kv = list(exp)
    for _ in range(num):
        exp_kv.remove(xq)
    cx.eq('kv', after['kvs'][d], cx.consts(exp_kv))
    cx.check('size', after['sizes'][d] == mid['sizes'][d] - num)
    prm = shapes.sym_params(cx, ref)
    cx.eq('point', shapes.evaluate(obj, prm), shapes.evaluate(ref, prm))


def instances(tier):
    out = []
    quick = tier == 'quick'

    def add(sp, d, r, r2, via='operations', timeout=900, after_sibling=False):
        nm = '%s ins%d-rem%d dir %s %s%s' % (spec_name(sp), r, r2, shapes.DIRS[d], via, ' after a sibling' if after_sibling else '')
        if not any(i.name == nm for i in out):
            out.append(inst(nm, h_insert_remove, timeout=timeout, sp=sp, d=d, r=r, r2=r2, via=via, after_sibling=after_sibling))

    add(spec('curve', (2,), ((1, 1),), rational=False, kscaled=True), 0, 1, 1)
    add(spec('curve', (3,), ((1,),), rational=True, kscaled=True), 0, 2, 2, via='method')
    add(spec('surface', (1, 2), ((1,), (1,)), rational=False, kscaled=True), 1, 1, 1, timeout=1200)
    add(spec('curve', (2,), ((1, 1),), rational=False, shifted=True), 0, 1, 1)
    add(spec('curve', (3,), ((2,),), rational=True, shifted=True), 0, 1, 1, via='method')
    add(spec('surface', (1, 2), ((1,), (1,)), rational=False, shifted=True), 1, 2, 2, timeout=1200)
    add(spec('curve', (2,), ((1,),), rational=False), 0, 1, 1, after_sibling=True)
    add(spec('curve', (2,), ((1, 1),), rational=False), 0, 1, 1, after_sibling=True)
    add(spec('curve', (3,), ((1, 1, 1),), rational=False), 0, 2, 2, after_sibling=True)
    add(spec('curve', (3,), ((1,),), rational=True), 0, 2, 2, via='method', after_sibling=True)
    add(spec('surface', (1, 2), ((1,), ()), rational=False), 1, 1, 1, after_sibling=True)
    add(spec('surface', (2, 1), ((), (1,)), rational=True), 0, 1, 1, after_sibling=True)
    add(spec('volume', (1, 1, 2), ((), (1,), ()), rational=False), 2, 1, 1, after_sibling=True, timeout=1800)

    for p in ((1, 2, 3) if quick else (1, 2, 3, 4, 5)):
        for m in [(), (1,)] + ([(2,), (1, 1)] if p >= 2 else []) + ([] if quick or p < 3 else [(p - 1,), (1, 2, 1)]):
            for rational in (False, True):
                sp = spec('curve', (p,), (m,), rational=rational)
                for r in range(1, p + 1):
                    for r2 in range(1, r + 1):
                        if quick and rational and r2 not in (1, r):
                            continue
                        add(sp, 0, r, r2)
        add(spec('curve', (p,), ((1,),), rational=True), 0, 1, 1, via='method')
    add(spec('curve', (2,), ((1,),), rational=False, lo=2, hi=5), 0, 2, 2)
    add(spec('curve', (2,), ((1,),), rational=True, lo=-1, hi=1), 0, 1, 1)
    add(spec('curve', (3,), ((),), rational=False, lo=-2, hi=3), 0, 2, 2, via='method')
    sp0 = spec('surface', (2, 1), ((1,), (1,)), rational=False, doms=[(-1, 1), (-2, 3)])
    for d in (0, 1):
        add(sp0, d, 1, 1, timeout=1200)
        add(sp0, d, 1, 1, via='method', timeout=1200)
    spv = spec('volume', (1, 1, 2), ((), (1,), ()), rational=False, doms=[(-1, 1), (-1, 2), (-3, 1)])
    for d in range(3):
        add(spv, d, 1, 1, timeout=1800)
    add(spec('volume', (4, 1, 1), ((), (), ()), rational=False), 0, 1, 1, timeout=1800)
    add(spec('volume', (1, 1, 4), ((), (), (1,)), rational=False), 2, 2, 2, timeout=1800)
    surf = [((1, 2), ((1,), ())), ((2, 1), ((), (1,))), ((2, 2), ((1,), (1,)))]
    if not quick:
        surf += [((3, 2), ((1,), ())), ((2, 3), ((), (1,))), ((3, 3), ((1,), (1,)))]
    for degs, ms in surf:
        for rational in (False, True):
            sp = spec('surface', degs, ms, rational=rational)
            for d in (0, 1):
                add(sp, d, 1, 1, timeout=1200)
                if degs[d] >= 2:
                    add(sp, d, degs[d], degs[d], timeout=1200)
                    add(sp, d, 2, 1, timeout=1200)
    add(spec('surface', (2, 1), ((), (1,)), rational=True), 0, 1, 1, via='method', timeout=1200)
    add(spec('surface', (2, 1), ((), (1,)), rational=True), 1, 1, 1, via='method', timeout=1200)
    vols = [((1, 1, 2), ((1,), (), ())), ((2, 1, 1), ((), (1,), (1, 1)))]
    for degs, ms in vols:
        for rational in ((False,) if quick else (False, True)):
            sp = spec('volume', degs, ms, rational=rational)
            for d in range(3):
                add(sp, d, 1, 1, timeout=1800)
                if degs[d] >= 2:
                    add(sp, d, 2, 2, timeout=1800)
    add(spec('volume', (1, 1, 2), ((1,), (), ()), rational=False), 2, 1, 1, via='method', timeout=1800)
    for degs, ms in [((1, 2), ((1,), ())), ((2, 1), ((), (1,)))] + ([] if quick else [((2, 2), ((1,), (1,)))]):
        for rational in (False, True):
            sp = spec('surface', degs, ms, rational=rational)
            for via in ('operations', 'method'):
                out.append(inst('%s ins-rem multi uv %s' % (spec_name(sp), via), h_insert_remove_multi, timeout=1800, sp=sp, dirs=(0, 1), via=via))
    sp = spec('volume', (1, 1, 2), ((1,), (), ()), rational=False)
    out.append(inst('%s ins-rem multi uvw' % spec_name(sp), h_insert_remove_multi, timeout=1800, sp=sp, dirs=(0, 1, 2)))
    out.append(inst('%s ins-rem multi vw method' % spec_name(sp), h_insert_remove_multi, timeout=1800, sp=sp, dirs=(1, 2), via='method'))
    if quick:
        add(spec('volume', (3, 1, 1), ((), (), (1,)), rational=False), 0, 2, 2, timeout=1200)
        add(spec('volume', (1, 3, 2), ((), (1,), ()), rational=False), 1, 3, 3, timeout=1200)
    if not quick:
        for rational in (False, True):
            sp = spec('volume', (3, 1, 1), ((), (), (1,)), rational=rational)
            for r in (1, 2, 3):
                add(sp, 0, r, r, timeout=2400)
            sp = spec('volume', (1, 3, 2), ((), (1,), ()), rational=rational)
            add(sp, 1, 2, 2, timeout=2400)
            add(sp, 1, 3, 3, timeout=2400)
            add(sp, 2, 2, 2, timeout=2400)
    # refinement then removal
    for p in ((1, 2, 3) if quick else (1, 2, 3, 4)):
        for m in [(), (1,)]:
            for rational in (False, True):
                sp = spec('curve', (p,), (m,), rational=rational)
                for which in (0, 1):
                    for num in sorted(set([1, p])):
                        nm = '%s refine-remove knot#%d x%d' % (spec_name(sp), which, num)
                        if not any(i.name == nm for i in out):
                            out.append(inst(nm, h_refine_remove, timeout=900, sp=sp, d=0, which=which, num=num))
    sp = spec('surface', (2, 1), ((), (1,)), rational=False)
    out.append(inst('%s refine-remove u' % spec_name(sp), h_refine_remove, timeout=1200, sp=sp, d=0, which=0, num=2))
    out.append(inst('%s refine-remove v' % spec_name(sp), h_refine_remove, timeout=1200, sp=sp, d=1, which=1, num=1))
    return out
