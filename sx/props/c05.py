"""C05 - knot refinement never changes the shape."""
from fractions import Fraction as F

from .. import families as fam
from .. import geo, shapes, oracles
from ..shapes import spec, spec_name
from ..run import inst

PROPERTY = 'C05'
ASSUMPTIONS = ['weights positive', 'knot vectors clamped with concrete rational knots (object level); additional knots at helper level are symbolic, inside the domain, outside the snap zone of existing knots']
OUTSIDE = ['densities > 2 (quick) / 3 (thorough)', 'degrees > 3', 'symbolic knot vectors']
BOUNDS = {'quick': 'curves p<=3 d<=2; surfaces degrees<=2 every direction subset d<=2; volumes degrees<=2 d=1; helper-level knot_list / add_knot_list p<=2; shifted knot vectors; refine after a sibling; unsorted helper-level knot lists',
          'thorough': 'curves p<=4 d<=3; surfaces to (3,2); volumes d<=2; helper-level p<=3 with two symbolic additional knots'}


def expected_refined_kv(kv, p, d):
    lo_i, hi_i = p, len(kv) - p - 1
    dist = fam.distinct(kv[lo_i:hi_i + 1])
    pts = []
    for a, b in zip(dist, dist[1:]):
        for j in range(2 ** d):
            pts.append(a + (b - a) * F(j, 2 ** d))
    pts.append(dist[-1])
    out = [kv[0]] * (p + 1)
    for x in pts[1:-1]:
        out += [x] * p
    out += [kv[-1]] * (p + 1)
    return out


def h_refine(cx, sp, dens, after_sibling=False):
    ops = geo.M('operations')
    obj, info = shapes.build(cx, sp)
    ref = shapes.clone(obj)
    before = shapes.snapshot(obj)
    if after_sibling:
        shapes.prime_with_sibling(cx, sp, lambda sib, _i: ops.refine_knotvector(sib, list(dens)))
    ops.refine_knotvector(obj, list(dens))
    after = shapes.snapshot(obj)
    for d, den in enumerate(dens):
        nm = shapes.DIRS[d]
        if den > 0:
            exp = expected_refined_kv(sp['kvs'][d], sp['degs'][d], den)
            off = info['K'][d][0] - cx.const(sp['kvs'][d][0])          # non-zero for `shifted` shapes only
            cx.eq('kv_%s' % nm, after['kvs'][d], [e + off for e in cx.consts(exp)])
            cx.check('size_%s' % nm, after['sizes'][d] == len(exp) - sp['degs'][d] - 1, 'size %s' % after['sizes'][d])
        else:
            cx.eq('kv_%s_untouched' % nm, after['kvs'][d], before['kvs'][d])
            cx.check('size_%s_untouched' % nm, after['sizes'][d] == before['sizes'][d])
    tot = 1
    for s_ in after['sizes']:
        tot *= s_
    cx.check('net_len', len(after['net']) == tot, 'len(ctrlpts)=%d sizes=%s' % (len(after['net']), after['sizes']))
    cx.eq('degrees', after['degs'], before['degs'])
    prm = shapes.sym_params(cx, ref)
    cx.eq('point', shapes.evaluate(obj, prm), shapes.evaluate(ref, prm))


def h_refine_helper(cx, p, kv, knot_list=None, n_add=0, density=1, dim=2):
    """helpers.knot_refinement with explicit knot_list / symbolic add_knot_list"""
    H = geo.M('helpers')
    n = len(kv) - p - 1
    K = cx.consts(kv)
    P = cx.points('P', n, dim)
    kw = {'density': density}
    refined = None
    if knot_list is not None:
        kw['knot_list'] = cx.consts(knot_list)
        refined = list(kw['knot_list'])
    else:
        refined = list(K[p:len(K) - p])
    adds = []
    for i in range(n_add):
        x = cx.real('a%d' % i, param=True)
        cx.assume(x > K[p], check=False)
        cx.assume(x < K[n], check=False)
        cx.snap(x, K)
        adds.append(x)
    for i in range(len(adds)):
        for j in range(i):
            cx.assume(cx.any_of([adds[i] - adds[j] > F(1, 1000), adds[j] - adds[i] > F(1, 1000)]))
    for x in adds:
        for y in refined:
            cx.assume(cx.any_of([x - y > F(1, 1000), y - x > F(1, 1000), x == y]))
    if adds:
        kw['add_knot_list'] = list(adds)
    arg_P = [list(q) for q in P]
    arg_K = list(K)
    new_P, new_kv = H.knot_refinement(p, arg_K, arg_P, **kw)
    # the helper must not modify its inputs (callers pass the object's own lists)
    cx.eq('input_ctrlpts_unmodified', arg_P, P)
    cx.eq('input_knots_unmodified', arg_K, K)
    second = H.knot_refinement(p, list(K), [list(q) for q in P], **{k_: (list(v_) if isinstance(v_, list) else v_) for k_, v_ in kw.items()})
    cx.eq('repeatable', [second[0], second[1]], [new_P, new_kv])
    # expected knot vector: every knot of the (bisected) refinement list raised to multiplicity p
    lst = []
    for x in refined + adds:
        if not any(cx.holds(x == y) for y in lst):
            lst.append(x)
    lst = sorted(lst, key=_Key(cx))
    for _ in range(density):
        nxt = []
        for a, b in zip(lst, lst[1:]):
            nxt += [a, a + (b - a) / 2]
        nxt.append(lst[-1])
        lst = nxt
    exp = list(K)
    for x in lst:
        s = shapes.multiplicity(cx, x, K)
        exp += [x] * max(0, p - s)
    exp = sorted(exp, key=_Key(cx))
    cx.eq('kv', list(new_kv), exp)
    cx.check('net_len', len(new_P) == len(exp) - p - 1, 'len(ctrlpts)=%d len(kv)=%d' % (len(new_P), len(new_kv)))
    c0 = geo.make_curve(cx, p, K, P)
    c1 = geo.make_curve(cx, p, list(new_kv), [list(q) for q in new_P])
    u = cx.real('u', lo=K[p], hi=K[n], param=True)
    cx.eq('point', c1.evaluate_single(u), c0.evaluate_single(u))


class _Key:
    """sort key comparing through cx.holds (forks in symbolic mode)"""
    def __init__(self, cx):
        self.cx = cx

    def __call__(self, v):
        return _K(v, self.cx)


class _K:
    def __init__(self, v, cx):
        self.v, self.cx = v, cx

    def __lt__(self, o):
        return self.cx.holds(self.v < o.v)


def instances(tier):
    out = []
    quick = tier == 'quick'

    def add(sp, dens, timeout=900, after_sibling=False):
        nm = '%s refine%s%s' % (spec_name(sp), list(dens), ' after a sibling' if after_sibling else '')
        if not any(i.name == nm for i in out):
            out.append(inst(nm, h_refine, timeout=timeout, sp=sp, dens=tuple(dens), after_sibling=after_sibling))

    add(spec('curve', (2,), ((1,),), rational=False, shifted=True), [1])
    add(spec('curve', (3,), ((1, 1),), rational=True, shifted=True), [1])
    add(spec('curve', (2,), ((1,),), rational=True, shifted=True), [2])
    add(spec('surface', (1, 2), ((1,), ()), rational=False, shifted=True), [1, 1], timeout=1800)
    add(spec('curve', (2,), ((1,),), rational=False), [1], after_sibling=True)
    add(spec('curve', (3,), ((),), rational=True), [2], after_sibling=True)
    add(spec('surface', (1, 2), ((1,), ()), rational=False), [1, 0], after_sibling=True)
    add(spec('surface', (2, 1), ((), (1,)), rational=True), [0, 1], after_sibling=True)
    add(spec('volume', (1, 1, 2), ((), (1,), ()), rational=False), [0, 1, 0], after_sibling=True, timeout=1800)

    for p in ((1, 2, 3) if quick else (1, 2, 3, 4)):
        for m in [(), (1,), (p,), (1, 1)] + ([(2,)] if p >= 3 else []):
            for rational in (False, True):
                for d in ((1, 2) if quick else (1, 2, 3)):
                    if p + len(m) + d >= (6 if quick else 8) and rational:
                        continue
                    add(spec('curve', (p,), (m,), rational=rational, dim=2 if rational else 3), [d])
    add(spec('curve', (2,), ((1,),), rational=True, lo=2, hi=5), [1])
    add(spec('curve', (2,), ((1,),), rational=False, lo=-1, hi=1), [1])
    add(spec('curve', (3,), ((1, 1),), rational=True, lo=-2, hi=2), [2])
    sp0 = spec('surface', (2, 1), ((1,), (1,)), rational=False, doms=[(-1, 1), (-2, 3)])
    for dens in ((1, 0), (0, 1), (1, 1)):
        add(sp0, dens)
    add(spec('volume', (1, 1, 2), ((), (1,), ()), rational=False, doms=[(-1, 1), (-1, 2), (-3, 1)]), (1, 1, 1), timeout=1800)
    add(spec('curve', (3,), ((),), rational=False, lo=2, hi=5), [2])
    surf = [((1, 2), ((1,), ())), ((2, 1), ((), (1,))), ((2, 2), ((1,), (2,)))]
    if not quick:
        surf += [((3, 2), ((1,), (1,))), ((2, 3), ((), (1, 1))), ((3, 3), ((), (1,))), ((1, 3), ((1, 1), (2,)))]
    for degs, ms in surf:
        for rational in (False, True):
            sp = spec('surface', degs, ms, rational=rational)
            for dens in ([(1, 0), (0, 1), (1, 1), (2, 0), (0, 2)] + ([] if quick else [(2, 1), (1, 2), (3, 0)])):
                if quick and rational and sum(dens) > 1 and degs == (2, 2):
                    continue
                add(sp, dens, timeout=1200)
    add(spec('surface', (2, 1), ((), (1,)), rational=True, lo=2, hi=5), (1, 1))
    vols = [((1, 1, 2), ((1,), (), ())), ((2, 1, 1), ((), (1,), (1, 1)))] + ([] if quick else [((2, 2, 1), ((1,), (), ())), ((1, 3, 2), ((), (1,), ()))])
    for degs, ms in vols:
        for rational in ((False,) if quick else (False, True)):
            sp = spec('volume', degs, ms, rational=rational)
            for dens in ([(1, 0, 0), (0, 1, 0), (0, 0, 1)] + ([] if quick else [(1, 1, 0), (0, 1, 1), (1, 1, 1), (2, 0, 0), (0, 0, 2)])):
                add(sp, dens, timeout=1800)
    add(spec('volume', (1, 1, 2), ((1,), (), ()), rational=True), (1, 0, 1), timeout=1800)
    # helper level
    for p in ((1, 2) if quick else (1, 2, 3)):
        kv = fam.pattern(p, (1, 1, 1))
        out.append(inst('helper p%d knot_list[1/2,3/4]' % p, h_refine_helper, p=p, kv=kv, knot_list=[F(1, 2), F(3, 4)]))
        out.append(inst('helper p%d knot_list[1/4,1/2] d2' % p, h_refine_helper, p=p, kv=kv, knot_list=[F(1, 4), F(1, 2)], density=2))
        out.append(inst('helper p%d dom[2,5] knot_list' % p, h_refine_helper, p=p, kv=fam.pattern(p, (1,), 2, 5), knot_list=[F(3), F(4)]))
        if p >= 2:
            out.append(inst('helper p%d knot_list whole domain' % p, h_refine_helper, p=p, kv=kv, knot_list=[F(0), F(1)]))
        out.append(inst('helper p%d knot_list from domain start' % p, h_refine_helper, p=p, kv=kv, knot_list=[F(0), F(4, 5)]))
        out.append(inst('helper p%d knot_list from full-multiplicity knot' % p, h_refine_helper, p=p, kv=fam.pattern(p, (p, 1, 1)), knot_list=[F(1, 4), F(1)]))
        out.append(inst('helper p%d knot_list in last span' % p, h_refine_helper, p=p, kv=kv, knot_list=[F(4, 5), F(9, 10)]))
        out.append(inst('helper p%d knot_list in first span' % p, h_refine_helper, p=p, kv=kv, knot_list=[F(1, 10), F(1, 5)]))
        out.append(inst('helper p%d knot_list not ascending' % p, h_refine_helper, p=p, kv=kv, knot_list=[F(7, 10), F(3, 10)]))
        out.append(inst('helper p%d knot_list zig-zag with a repeat' % p, h_refine_helper, p=p, kv=kv, knot_list=[F(3, 5), F(1, 5), F(4, 5), F(1, 5)]))
        out.append(inst('helper p%d single knot in last span' % p, h_refine_helper, p=p, kv=kv, knot_list=[F(7, 8), F(7, 8)], density=1))
        out.append(inst('helper p%d add1' % p, h_refine_helper, timeout=900, p=p, kv=fam.pattern(p, (1,)), n_add=1))
        if not quick:
            out.append(inst('helper p%d add2' % p, h_refine_helper, timeout=1800, p=p, kv=fam.pattern(p, (1,)), n_add=2))
    return out
