"""C19 - equality of shapes is an equivalence that tracks the definition."""
import copy
from fractions import Fraction as F

from .. import families as fam
from .. import geo, shapes
from ..shapes import spec, spec_name
from ..run import inst

PROPERTY = 'C19'
ASSUMPTIONS = [
    "the property does not fix 'the comparison tolerance'; the check demands inequality only for a change of at least 1e-3 "
    "(three orders above every tolerance the library uses elsewhere) and demands equality only for a change of exactly 0",
    'weights positive; perturbed knots keep the vector non-decreasing',
]
OUTSIDE = ['shapes larger than the listed ones', 'simultaneous changes of several components']
BOUNDS = {'quick': 'curve p2 (4 pts, 2-D), surface (1,2) 2x3 net, volume (1,1,1) 2x2x2, rational and not; every coordinate / weight / knot perturbed by symbolic delta; degree/size/kind/rationality flips; affinely mapped knot vectors; deep copy after an edit through a getter list; tuple knot vectors',
          'thorough': 'additionally curve p3 with double knot, surface (2,2), volume (1,2,1)'}

TOL = F(1, 1000)


def _build_pair(cx, sp, comp, idx):
    """A and B identical except component comp[idx] += delta"""
    degs, kvs = sp['degs'], sp['kvs']
    sizes = [len(k) - d - 1 for k, d in zip(kvs, degs)]
    n = 1
    for s in sizes:
        n *= s
    P = cx.points('P', n, sp['dim'])
    W = cx.reals('w', n, positive=True) if sp['rational'] else None
    delta = cx.real('delta')
    K1 = [cx.consts(k) for k in kvs]
    K2 = [list(k) for k in K1]
    # homogeneous control points (the representation equality is defined on); plain ones for non-rational shapes
    if W is not None:
        H1 = [[x * w for x in p] + [w] for p, w in zip(P, W)]
    else:
        H1 = [list(p) for p in P]
    H2 = [list(h) for h in H1]
    if comp == 'coord':
        i, d = idx
        H2[i][d] = H2[i][d] + delta
    elif comp == 'weight':
        H2[idx][-1] = H2[idx][-1] + delta
        cx.assume(H2[idx][-1] > 0, check=False)
    elif comp == 'knots_affine':
        # the whole knot vector of one direction is mapped affinely (k -> alpha*k + beta): same shape, other domain
        alpha = cx.real('alpha', lo=F(1, 10), hi=10)
        beta = cx.real('beta', lo=-10, hi=10)
        K2[idx] = [alpha * k + beta for k in K2[idx]]
        delta = [k2 - k1 for k1, k2 in zip(K1[idx], K2[idx])]
    elif comp == 'knot':
        d, j = idx
        K2[d][j] = K2[d][j] + delta
        if j > 0:
            cx.assume(K2[d][j] >= K2[d][j - 1], check=False)
        if j + 1 < len(K2[d]):
            cx.assume(K2[d][j] <= K2[d][j + 1], check=False)

    def mk(Ks, H):
        mod = geo.M('NURBS' if W is not None else 'BSpline')
        if sp['kind'] == 'curve':
            o = mod.Curve(normalize_kv=False)
            o.degree = degs[0]
            o.set_ctrlpts([list(h) for h in H])
            o.knotvector = list(Ks[0])
        elif sp['kind'] == 'surface':
            o = mod.Surface(normalize_kv=False)
            o.degree_u, o.degree_v = degs
            o.set_ctrlpts([list(h) for h in H], sizes[0], sizes[1])
            o.knotvector_u, o.knotvector_v = list(Ks[0]), list(Ks[1])
        else:
            o = mod.Volume(normalize_kv=False)
            o.degree_u, o.degree_v, o.degree_w = degs
            o.set_ctrlpts([list(h) for h in H], *sizes)
            o.knotvector_u, o.knotvector_v, o.knotvector_w = [list(k) for k in Ks]
        return o
    return mk(K1, H1), mk(K2, H2), delta


def h_perturb(cx, sp, comp, idx):
    A, B, delta = _build_pair(cx, sp, comp, idx)
    r_ab = (A == B)
    r_ba = (B == A)
    cx.check('symmetric', r_ab is r_ba or bool(r_ab) == bool(r_ba), 'A==B is %s, B==A is %s' % (r_ab, r_ba))
    cx.check('ne_is_not_eq', (A != B) == (not r_ab))
    deltas = delta if isinstance(delta, list) else [delta]
    if r_ab:
        # reported equal: the change must be within the comparison tolerance
        cx.check('equal_only_within_tolerance', cx.all_of([c for dl in deltas for c in (dl < TOL, dl > -TOL)]))
    else:
        # reported different: the shapes must really differ
        cx.check('unequal_only_if_changed', cx.any_of([dl != 0 for dl in deltas]))


def h_equivalence(cx, sp, edited=False, tuple_kv=False):
    obj, info = shapes.build(cx, sp, normalize_kv=not tuple_kv)
    if tuple_kv:
        # knot vectors handed over as tuples (kept as they are when normalize_kv=False)
        if obj.pdimension == 1:
            obj.knotvector = tuple(obj.knotvector)
        else:
            for d in shapes.DIRS[:obj.pdimension]:
                setattr(obj, 'knotvector_' + d, tuple(getattr(obj, 'knotvector_' + d)))
    if edited:
        # every view was read (and the shape compared) before, then one stored control point is overwritten through the
        # list the getter hands out; whatever that does to the shape, the copy taken afterwards is a copy of it
        for nm in ('ctrlpts', 'weights', 'ctrlptsw'):
            getattr(obj, nm, None)
        obj == obj
        store = obj.ctrlptsw if obj.rational else obj.ctrlpts
        E = cx.reals('E', len(store[1]))
        if obj.rational:
            cx.assume(E[-1] > 0, check=False)
        try:
            for d in range(len(E)):
                store[1][d] = E[d]
        except TypeError:
            pass        # immutable points: nothing was changed
    cp = copy.deepcopy(obj)
    cx.check('reflexive', (obj == obj) is True)
    cx.check('deepcopy_equal', (obj == cp) is True)
    cx.check('deepcopy_equal_sym', (cp == obj) is True)
    cx.check('not_ne_self', (obj != obj) is False)
    cx.check('vs_none', (obj == None) is False)  # noqa
    cx.check('vs_number', (obj == 3) is False)
    # a second, independently built shape with the same definition
    if not edited:
        obj2, _ = shapes.build(cx, sp, normalize_kv=not tuple_kv)
        cx.check('same_definition_equal', (obj == obj2) is True)


def h_discrete(cx, sp, sp2, expect_equal=False):
    """two shapes whose definitions differ in a discrete component (degree, size, kind, rationality)"""
    A, _ = shapes.build(cx, sp)
    # independent symbols for B would make any outcome possible: B re-uses A's symbols where shapes overlap
    B, _ = shapes.build(cx, sp2)
    r = (A == B)
    cx.check('verdict', bool(r) == expect_equal, 'A==B is %s' % r)
    cx.check('symmetric', bool(B == A) == bool(r))
    cx.check('ne', (A != B) == (not r))


def h_cross_class(cx, kind):
    """a non-rational shape and a rational one whose stored arrays are IDENTICAL (the last coordinate is read as the weight)"""
    B, N = geo.M('BSpline'), geo.M('NURBS')
    if kind == 'curve':
        P = cx.points('P', 4, 3)
        for p in P:
            cx.assume(p[2] > 0, check=False)
        a, b = B.Curve(normalize_kv=False), N.Curve(normalize_kv=False)
        for o in (a, b):
            o.degree = 2
        a.ctrlpts = [list(p) for p in P]
        b.ctrlptsw = [list(p) for p in P]
        for o in (a, b):
            o.knotvector = [0, 0, 0, F(1, 2), 1, 1, 1]
    else:
        P = cx.points('P', 6, 4)
        for p in P:
            cx.assume(p[3] > 0, check=False)
        a, b = B.Surface(normalize_kv=False), N.Surface(normalize_kv=False)
        for o in (a, b):
            o.degree_u, o.degree_v = 1, 2
        a.set_ctrlpts([list(p) for p in P], 2, 3)
        b.set_ctrlpts([list(p) for p in P], 2, 3)
        for o in (a, b):
            o.knotvector_u = [0, 0, 1, 1]
            o.knotvector_v = [0, 0, 0, 1, 1, 1]
    cx.check('different_rationality_unequal', (a == b) is False, 'a == b is %s' % (a == b))
    cx.check('symmetric', (b == a) is False)
    cx.check('ne', (a != b) is True)
    cx.check('each_equals_itself', (a == a) is True and (b == b) is True)


def instances(tier):
    out = []
    quick = tier == 'quick'
    specs = []
    for rational in (False, True):
        specs.append(spec('curve', (2,), ((1,),), rational=rational))
        specs.append(spec('surface', (1, 2), ((), ()), rational=rational))
        specs.append(spec('volume', (1, 1, 1), ((), (), ()), rational=rational))
        if not quick:
            specs.append(spec('curve', (3,), ((2,),), rational=rational, dim=3))
            specs.append(spec('surface', (2, 2), ((1,), ()), rational=rational))
            specs.append(spec('volume', (1, 2, 1), ((), (), (1,)), rational=rational))
    for sp in specs:
        nm = spec_name(sp)
        out.append(inst('%s equivalence' % nm, h_equivalence, sp=sp))
        out.append(inst('%s equivalence after an edit through a getter list' % nm, h_equivalence, sp=sp, edited=True))
        out.append(inst('%s equivalence with tuple knot vectors' % nm, h_equivalence, sp=sp, tuple_kv=True))
        for d in range(len(sp['degs'])):
            out.append(inst('%s knots %s affine' % (nm, shapes.DIRS[d]), h_perturb, sp=sp, comp='knots_affine', idx=d))
        sizes = [len(k) - d - 1 for k, d in zip(sp['kvs'], sp['degs'])]
        n = 1
        for s in sizes:
            n *= s
        pts = range(n) if (quick and n <= 6) or not quick else [0, 1, n // 2, n - 1]
        for i in pts:
            for d in range(sp['dim']):
                out.append(inst('%s coord P%d_%d' % (nm, i, d), h_perturb, sp=sp, comp='coord', idx=(i, d)))
            if sp['rational']:
                out.append(inst('%s weight w%d' % (nm, i), h_perturb, sp=sp, comp='weight', idx=i))
        for d, kv in enumerate(sp['kvs']):
            for j in range(len(kv)):
                out.append(inst('%s knot %s[%d]' % (nm, shapes.DIRS[d], j), h_perturb, sp=sp, comp='knot', idx=(d, j)))
    # discrete components
    c2 = spec('curve', (2,), ((1,),))
    out.append(inst('discrete degree curve', h_discrete, sp=c2, sp2=spec('curve', (3,), ((),))))            # same 4 points, degree 3
    out.append(inst('discrete size curve', h_discrete, sp=c2, sp2=spec('curve', (2,), ((1, 1),))))
    out.append(inst('discrete rationality curve', h_discrete, sp=c2, sp2=spec('curve', (2,), ((1,),), rational=True)))
    out.append(inst('discrete kind curve-surface', h_discrete, sp=c2, sp2=spec('surface', (1, 2), ((), ()))))
    out.append(inst('discrete kind surface-volume', h_discrete, sp=spec('surface', (1, 1), ((), ())), sp2=spec('volume', (1, 1, 1), ((), (), ()))))
    s12 = spec('surface', (1, 2), ((1,), ()))
    out.append(inst('discrete degree surface', h_discrete, sp=s12, sp2=spec('surface', (2, 2), ((), ()))))      # 3x3 both
    out.append(inst('discrete size surface swapped', h_discrete, sp=spec('surface', (1, 1), ((1,), ())), sp2=spec('surface', (1, 1), ((), (1,)))))  # 3x2 vs 2x3
    out.append(inst('discrete dimension curve', h_discrete, sp=spec('curve', (2,), ((1,),), dim=2), sp2=spec('curve', (2,), ((1,),), dim=3)))
    out.append(inst('discrete same surface', h_discrete, sp=s12, sp2=s12, expect_equal=True))
    out.append(inst('cross-class identical arrays curve', h_cross_class, kind='curve'))
    out.append(inst('cross-class identical arrays surface', h_cross_class, kind='surface'))
    return out
