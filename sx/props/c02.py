"""C02 - derivatives returned are the true derivatives of the shape."""
from fractions import Fraction as F

from .. import families as fam
from .. import geo, shapes, oracles
from ..shapes import spec, spec_name
from ..run import inst

PROPERTY = 'C02'
ASSUMPTIONS = [
    'derivatives are taken from the right at knots; the right domain end is excluded (u < end)',
    'parameter equal to a knot or farther than 1e-5 from every knot; weights positive',
    'normalised tangents/normals: the vector being normalised is non-zero (its norm s satisfies s > 0 on the path)',
]
OUTSIDE = ['degrees > 3 (quick) / 4 (thorough)', 'rational derivative orders > 2 (quick) / 3 (thorough)', 'volumes (no derivative API)']
BOUNDS = {'quick': 'curves p<=3 orders 0..p+2 (rational: <=2), both evaluator families; surfaces degrees<=2 orders<=3 (rational <=2 on (1,2)/(2,1)); hodographs; tangent/normal; scaled shapes (net times a symbolic factor) for unit tangents / normals; knot vectors times a symbolic factor (both evaluator families)',
          'thorough': 'curves p<=4 rational orders<=3; surfaces to (3,2); rational surfaces (2,2) order 2'}


def _evaluator(obj, which):
    E = geo.M('evaluators')
    if which == 'alt':
        obj.evaluator = E.CurveEvaluator2() if obj.pdimension == 1 else E.SurfaceEvaluator2()


def h_curve_ders(cx, sp, order, evaluator='default', span=None):
    kw = {'find_span_func': getattr(geo.M('helpers'), span)} if span else {}
    obj, info = shapes.build(cx, sp, **kw)
    _evaluator(obj, evaluator)
    K = info['K'][0]
    p = sp['degs'][0]
    n = info['sizes'][0]
    u = cx.real('u', lo=K[p], hi=K[n], param=True)
    cx.assume(u < K[n])
    if not sp.get('kscaled'):          # (no absolute snap zone on knot vectors of arbitrary scale; linear span search has no tolerance)
        cx.snap(u, K)
    orc = oracles.DerivOracle(cx, sp['degs'], info['K'], info['sizes'], info['P'], info['W'], [u])
    ders = obj.derivatives(u, order)
    cx.check('len', len(ders) == order + 1, 'got %d derivative vectors for order %d' % (len(ders), order))
    for k in range(min(order + 1, len(ders))):
        if sp['rational'] and k >= 2:
            # quotient-rule characterisation (avoids the formal derivative of a quotient)
            lhs, rhs = orc.leibniz_residuals(lambda j: list(ders[j]), (k,))
            cx.eq('ders[%d]' % k, rhs, lhs)
        else:
            cx.eq('ders[%d]' % k, list(ders[k]), orc.D(k))
    if not sp['rational']:
        for k in range(p + 1, min(order + 1, len(ders))):
            cx.eq('zero_above_degree[%d]' % k, list(ders[k]), [0] * sp['dim'])


def h_surface_ders(cx, sp, order, evaluator='default'):
    obj, info = shapes.build(cx, sp)
    _evaluator(obj, evaluator)
    prm = []
    for d, nm in enumerate('uv'):
        K = info['K'][d]
        x = cx.real(nm, lo=K[sp['degs'][d]], hi=K[info['sizes'][d]], param=True)
        cx.assume(x < K[info['sizes'][d]])
        if not sp.get('kscaled'):
            cx.snap(x, K)
        prm.append(x)
    orc = oracles.DerivOracle(cx, sp['degs'], info['K'], info['sizes'], info['P'], info['W'], prm)
    skl = obj.derivatives(prm[0], prm[1], order)
    for k in range(order + 1):
        for l in range(order + 1 - k):
            if sp['rational'] and k + l >= 2:
                lhs, rhs = orc.leibniz_residuals(lambda a, b: list(skl[a][b]), (k, l))
                cx.eq('skl[%d][%d]' % (k, l), rhs, lhs)
            else:
                cx.eq('skl[%d][%d]' % (k, l), list(skl[k][l]), orc.D(k, l))


def h_hodograph_curve(cx, sp):
    ops = geo.M('operations')
    obj, info = shapes.build(cx, sp)
    K = info['K'][0]
    p = sp['degs'][0]
    n = info['sizes'][0]
    u = cx.real('u', lo=K[p], hi=K[n], param=True)
    cx.assume(u < K[n])
    cx.snap(u, K)
    orc = oracles.DerivOracle(cx, sp['degs'], info['K'], info['sizes'], info['P'], None, [u])
    before = shapes.snapshot(obj)
    hod = ops.derivative_curve(obj)
    shapes.same_state(cx, 'input_unchanged', obj, before)
    cx.check('degree', hod.degree == p - 1)
    cx.eq('hodograph', hod.evaluate_single(u), orc.D(1))


def h_hodograph_surface(cx, sp):
    ops = geo.M('operations')
    obj, info = shapes.build(cx, sp)
    prm = []
    for d, nm in enumerate('uv'):
        K = info['K'][d]
        x = cx.real(nm, lo=K[sp['degs'][d]], hi=K[info['sizes'][d]], param=True)
        cx.assume(x < K[info['sizes'][d]])
        cx.snap(x, K)
        prm.append(x)
    orc = oracles.DerivOracle(cx, sp['degs'], info['K'], info['sizes'], info['P'], None, prm)
    su, sv, suv = ops.derivative_surface(obj)
    cx.eq('surf_u', su.evaluate_single(tuple(prm)), orc.D(1, 0))
    cx.eq('surf_v', sv.evaluate_single(tuple(prm)), orc.D(0, 1))
    cx.eq('surf_uv', suv.evaluate_single(tuple(prm)), orc.D(1, 1))


def _dot(a, b):
    return sum((x * y for x, y in zip(a[1:], b[1:])), a[0] * b[0])


def _cross(a, b):
    return [a[1] * b[2] - a[2] * b[1], a[2] * b[0] - a[0] * b[2], a[0] * b[1] - a[1] * b[0]]


def h_tangent_normal(cx, sp, normalize):
    ops = geo.M('operations')
    obj, info = shapes.build(cx, sp)
    prm = []
    for d in range(obj.pdimension):
        K = info['K'][d]
        x = cx.real('uv'[d], lo=K[sp['degs'][d]], hi=K[info['sizes'][d]], param=True)
        cx.assume(x < K[info['sizes'][d]])
        cx.snap(x, K)
        prm.append(x)
    orc = oracles.DerivOracle(cx, sp['degs'], info['K'], info['sizes'], info['P'], info['W'], prm)
    try:
        _tangent_normal_body(cx, sp, ops, obj, prm, orc, normalize)
    except ValueError as e:
        if 'magnitude of the vector is zero' in str(e):
            cx.assume(False)        # degenerate (zero) tangent / normal: outside the precondition
        raise


def _tangent_normal_body(cx, sp, ops, obj, prm, orc, normalize):
    if obj.pdimension == 1:
        pt, t = ops.tangent(obj, prm[0], normalize=normalize)
        d1 = orc.D(1)
        cx.eq('origin', list(pt), orc.D(0))
        if not normalize:
            cx.eq('tangent', list(t), d1)
        else:
            cx.eq('unit_length', _dot(t, t), 1)
            if sp['dim'] == 3:
                cx.eq('parallel', _cross(list(t), d1), [0, 0, 0])
            else:
                cx.eq('parallel', t[0] * d1[1] - t[1] * d1[0], 0)
            cx.ge('same_direction', _dot(t, d1), 0)
        # list form
        res = ops.tangent(obj, [prm[0]], normalize=normalize)
        cx.eq('list_form', [list(res[0][0]), list(res[0][1])], [list(pt), list(t)])
        return
    uv = (prm[0], prm[1])
    pt, tu, tv = ops.tangent(obj, uv, normalize=normalize)
    du, dv = orc.D(1, 0), orc.D(0, 1)
    cx.eq('origin', list(pt), orc.D(0, 0))
    npt, nrm = ops.normal(obj, uv, normalize=normalize)
    cx.eq('normal_origin', list(npt), orc.D(0, 0))
    if not normalize:
        cx.eq('tangent_u', list(tu), du)
        cx.eq('tangent_v', list(tv), dv)
        cx.eq('normal', list(nrm), _cross(du, dv))
    else:
        cx.eq('unit_tu', _dot(tu, tu), 1)
        cx.eq('unit_tv', _dot(tv, tv), 1)
        cx.eq('unit_normal', _dot(nrm, nrm), 1)
        cx.eq('tu_parallel', _cross(list(tu), du), [0, 0, 0])
        cx.eq('tv_parallel', _cross(list(tv), dv), [0, 0, 0])
        cx.eq('normal_perp_u', _dot(nrm, du), 0)
        cx.eq('normal_perp_v', _dot(nrm, dv), 0)
    res = ops.normal(obj, [uv], normalize=normalize)
    cx.eq('list_form', [list(res[0][0]), list(res[0][1])], [list(npt), list(nrm)])


def instances(tier):
    out = []
    quick = tier == 'quick'

    def add(kind, fn, sp, timeout=900, **kw):
        nm = ('%s %s %s' % (spec_name(sp), kind, ' '.join('%s=%s' % kv for kv in sorted(kw.items())))).strip()
        if not any(i.name == nm for i in out):
            out.append(inst(nm.strip(), fn, timeout=timeout, sp=sp, **kw))

    for p in ((1, 2, 3) if quick else (1, 2, 3, 4)):
        for m in [(), (1,), (p,)] + ([(1, 2)] if p >= 2 else []) + ([] if quick else [(1, 1, 1)]):
            sp = spec('curve', (p,), (m,), rational=False, dim=3)
            for ev in ('default', 'alt'):
                add('ders', h_curve_ders, sp, order=p + 2, evaluator=ev)
                add('ders', h_curve_ders, sp, order=1, evaluator=ev)
            spr = spec('curve', (p,), (m,), rational=True, dim=2)
            for order in ((1, 2) if quick else (1, 2, 3)):
                if p + order + len(m) > (6 if quick else 8):
                    continue
                add('ders', h_curve_ders, spr, timeout=1800, order=order)
        add('ders', h_curve_ders, spec('curve', (p,), ((1,),), rational=False, lo=2, hi=5), order=p + 1)
        add('ders', h_curve_ders, spec('curve', (p,), ((1, 1),), rational=False, lo=-1, hi=1), order=p + 1)
        add('ders', h_curve_ders, spec('curve', (p,), ((1,),), rational=True, lo=-2, hi=3), order=1)
        for m in [(1,), (p,), (1, 1, 1), (1, 2) if p >= 2 else (1, 1)]:
            add('ders', h_curve_ders, spec('curve', (p,), (m,), rational=False, dim=2), order=p + 1, span='find_span_binsearch')
        add('ders', h_curve_ders, spec('curve', (p,), ((1, 1),), rational=True, dim=2), order=1, span='find_span_binsearch')
        if p >= 2:
            for m in [(), (1,), (p - 1,), (1, 1)]:
                add('hodograph', h_hodograph_curve, spec('curve', (p,), (m,), rational=False, dim=3))
        for normalize in (False, True):
            add('tangent', h_tangent_normal, spec('curve', (p,), ((1,),), rational=False, dim=3), normalize=normalize)
            add('tangent', h_tangent_normal, spec('curve', (p,), ((),), rational=True, dim=2), timeout=1800, normalize=normalize)
    surf = [((1, 2), ((1,), ())), ((2, 1), ((), (1,))), ((2, 2), ((1,), (1,)))]
    if not quick:
        surf += [((3, 2), ((1,), ())), ((2, 3), ((), (1,))), ((3, 3), ((), ()))]
    for degs, ms in surf:
        sp = spec('surface', degs, ms, rational=False)
        for ev in ('default', 'alt'):
            for order in (1, 2, max(degs) + 1):
                add('ders', h_surface_ders, sp, timeout=1800, order=order, evaluator=ev)
        add('hodograph', h_hodograph_surface, sp, timeout=1800) if min(degs) >= 2 else None
        for normalize in (False, True):
            if normalize and sum(degs) > (3 if quick else 4):
                continue
            add('tangent_normal', h_tangent_normal, sp, timeout=1800, normalize=normalize)
    for degs, ms, orders in ([((1, 2), ((1,), ()), (1, 2)), ((2, 1), ((), (1,)), (1,))] if quick else
                             [((1, 2), ((1,), ()), (1, 2)), ((2, 1), ((), (1,)), (1, 2)), ((2, 2), ((), ()), (1, 2))]):
        spr = spec('surface', degs, ms, rational=True)
        for order in orders:
            add('ders', h_surface_ders, spr, timeout=3000, order=order)
    add('tangent_normal', h_tangent_normal, spec('surface', (1, 2), ((), ()), rational=True), timeout=3000, normalize=False)
    add('ders', h_surface_ders, spec('surface', (1, 1), ((), ()), rational=True), timeout=3000, order=3)
    if not quick:
        add('ders', h_surface_ders, spec('surface', (2, 1), ((), ()), rational=True), timeout=3000, order=3)
    add('ders', h_surface_ders, spec('surface', (1, 2), ((1,), (1,)), rational=False, doms=[(-1, 1), (-2, 3)]), timeout=1800, order=2)
    add('ders', h_surface_ders, spec('surface', (1, 2), ((1,), (1,)), rational=False, doms=[(-1, 1), (-2, 3)]), timeout=1800, order=2, evaluator='alt')
    add('tangent_normal', h_tangent_normal, spec('surface', (1, 2), ((1,), ()), rational=False, doms=[(-1, 1), (-2, 3)]), timeout=1800, normalize=False)
    add('hodograph', h_hodograph_surface, spec('surface', (2, 2), ((1,), (1,)), rational=False), timeout=1800)
    add('hodograph', h_hodograph_surface, spec('surface', (3, 2), ((1,), ()), rational=False), timeout=1800)
    for normalize in (False, True):
        add('tangent_normal', h_tangent_normal, spec('surface', (1, 1), ((1,), ()), rational=False), timeout=1800, normalize=normalize)
    # knot vectors times one symbolic factor (knot spans of any width): both evaluator families, hodograph
    for ev in ('default', 'alt'):
        add('ders', h_curve_ders, spec('curve', (2,), ((1,),), rational=False, dim=2, kscaled=True), order=3, evaluator=ev)
        add('ders', h_curve_ders, spec('curve', (3,), ((1, 1),), rational=False, dim=2, kscaled=True), order=3, evaluator=ev)
        add('ders', h_surface_ders, spec('surface', (1, 2), ((), (1,)), rational=False, kscaled=True), timeout=1800, order=2, evaluator=ev)
    add('ders', h_curve_ders, spec('curve', (2,), ((1,),), rational=True, dim=2, kscaled=True), timeout=1800, order=1)
    # geometry of every size: a fixed regular net times one symbolic factor (unit vectors must be unit vectors at micro scale too)
    for sp in (spec('curve', (2,), ((1,),), rational=False, dim=3, scaled=True), spec('curve', (3,), ((),), rational=True, dim=2, scaled=True),
               spec('surface', (1, 2), ((1,), ()), rational=False, scaled=True), spec('surface', (2, 2), ((), (1,)), rational=False, scaled=True),
               spec('surface', (2, 1), ((), ()), rational=True, scaled=True), spec('surface', (1, 2), ((), ()), rational=False, scaled=True, doms=[(0, 1000), (-2000, 3000)])):
        add('tangent' if sp['kind'] == 'curve' else 'tangent_normal', h_tangent_normal, sp, timeout=1800, normalize=True)
    return out
