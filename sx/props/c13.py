"""C13 - one control-net layout convention across all modules (v fastest, then u, then w)."""
from fractions import Fraction as F

from .. import families as fam
from .. import geo, shapes, oracles
from ..shapes import spec, spec_name
from ..run import inst

PROPERTY = 'C13'
ASSUMPTIONS = ['every control point / weight is its own symbol, sizes per direction pairwise different, so that two different addresses can never agree by accident',
               'weights positive']
OUTSIDE = ['sizes beyond the listed nets (the layout code does not depend on the values of the sizes beyond what the listed nets exercise; not proven for all sizes)',
           'degrees > 2']
BOUNDS = {'quick': 'surfaces 2x3, 3x2, 3x4; volumes 2x3x4, 3x2x2 (+4x3x2 managers); rational and not; every construction / extraction direction; extract_u / extract_v options; in-place edit through the flat getter list; explicit rational keyword; flips with a single size given',
          'thorough': 'additional nets 4x3, 2x4x3; degree 2 in every direction'}


def _flat2(P, su, sv):
    return [[P[j + sv * i] for j in range(sv)] for i in range(su)]


def h_surface_views(cx, sp):
    obj, info = shapes.build(cx, sp)
    su, sv = info['sizes']
    P, W = info['P'], info['W']
    net = [[x * w for x in p] + [w] for p, w in zip(P, W)] if W else [list(p) for p in P]
    g = obj.ctrlpts2d
    cx.check('ctrlpts2d.shape', len(g) == su and all(len(r) == sv for r in g))
    for i in range(su):
        for j in range(sv):
            cx.eq('ctrlpts2d[%d][%d]' % (i, j), list(g[i][j]), net[j + sv * i])
    # ctrlpts2d setter is the inverse of the getter
    o2 = type(obj)(normalize_kv=False)
    o2.degree_u, o2.degree_v = obj.degree_u, obj.degree_v
    o2.ctrlpts2d = [[list(p) for p in row] for row in g]
    cx.eq('ctrlpts2d_setter.sizes', shapes.sizes(o2), [su, sv])
    cx.eq('ctrlpts2d_setter.net', shapes.net(o2), net)
    # the grid view follows a later assignment of the flat list (net already exists)
    o4 = shapes.clone(obj)
    Q = cx.points('Q', su * sv, sp['dim'])
    o4.ctrlpts = [list(q) for q in Q]
    g4 = o4.ctrlpts2d
    for i in range(su):
        for j in range(sv):
            exp = ([x * W[j + sv * i] for x in Q[j + sv * i]] + [W[j + sv * i]]) if W else list(Q[j + sv * i])
            cx.eq('ctrlpts2d_after_assignment[%d][%d]' % (i, j), list(g4[i][j]), exp)
    # a coordinate overwritten through the list the flat getter hands out: whatever that does, flat list, grid view,
    # block lookup and transposition keep addressing one and the same net
    o5 = shapes.clone(obj)
    o5.ctrlpts2d                                   # (views read before)
    store = o5.ctrlptsw if o5.rational else o5.ctrlpts
    try:
        store[sv + 1 if su > 1 and sv > 1 else 1][0] = cx.real('E0')
    except TypeError:
        pass
    flat5 = [list(p) for p in (o5.ctrlptsw if o5.rational else o5.ctrlpts)]
    g5 = o5.ctrlpts2d
    for i in range(su):
        for j in range(sv):
            cx.eq('after_inplace_edit.ctrlpts2d[%d][%d]' % (i, j), list(g5[i][j]), flat5[j + sv * i])
    t5 = geo.M('operations').transpose(o5)
    flat5t = [list(p) for p in (t5.ctrlptsw if t5.rational else t5.ctrlpts)]
    for i in range(su):
        for j in range(sv):
            cx.eq('after_inplace_edit.transposed[%d][%d]' % (j, i), flat5t[i + su * j], flat5[j + sv * i])
    # managers
    CP = geo.M('control_points')
    m = CP.SurfaceManager(su, sv)
    for i in range(su):
        for j in range(sv):
            m.set_ctrlpt(list(net[j + sv * i]), i, j)
    cx.eq('manager.flat', [list(p) for p in m.ctrlpts], net)
    for i in range(su):
        for j in range(sv):
            cx.eq('manager.get[%d][%d]' % (i, j), list(m.get_ctrlpt(i, j)), net[j + sv * i])
            cx.check('manager.find_index[%d][%d]' % (i, j), m.find_index(i, j) == j + sv * i)
    # evaluation addresses the same points: the surface built from the manager's list equals the definition
    o3 = type(obj)(normalize_kv=False)
    o3.degree_u, o3.degree_v = obj.degree_u, obj.degree_v
    o3.set_ctrlpts([list(p) for p in m.ctrlpts], su, sv)
    o3.knotvector_u, o3.knotvector_v = list(obj.knotvector_u), list(obj.knotvector_v)
    prm = shapes.sym_params(cx, obj)
    ref = oracles.surface_point_def(sp['degs'][0], sp['degs'][1], info['K'][0], info['K'][1], su, sv, P, W, prm[0], prm[1], cx)
    cx.eq('manager_surface.point', o3.evaluate_single(tuple(prm)), ref)
    cx.eq('surface.point', obj.evaluate_single(tuple(prm)), ref)
    # find_ctrlpts returns the block addressed by the spans
    ops = geo.M('operations')
    H = geo.M('helpers')
    blk = ops.find_ctrlpts(obj, prm[0], prm[1])
    iu = H.find_span_linear(obj.degree_u, obj.knotvector_u, su, prm[0]) - obj.degree_u
    iv = H.find_span_linear(obj.degree_v, obj.knotvector_v, sv, prm[1]) - obj.degree_v
    for k in range(obj.degree_u + 1):
        for l in range(obj.degree_v + 1):
            cx.eq('find_ctrlpts[%d][%d]' % (k, l), list(blk[k][l]), net[(iv + l) + sv * (iu + k)])


def h_flips(cx, su, sv, dim=3):
    C = geo.M('compatibility')
    P = cx.points('P', su * sv, dim)
    # v-row order (v fastest) -> u-row order (u fastest) and back
    f = C.flip_ctrlpts(P, su, sv)
    cx.eq('flip_ctrlpts', [list(p) for p in f], [P[j + sv * i] for j in range(sv) for i in range(su)])
    cx.eq('flip_u(flip)', [list(p) for p in C.flip_ctrlpts_u(f, su, sv)], P)
    fu = C.flip_ctrlpts_u(P, su, sv)       # input in u-row order: P[i + su*j]
    cx.eq('flip_ctrlpts_u', [list(p) for p in fu], [P[i + su * j] for i in range(su) for j in range(sv)])
    cx.eq('flip(flip_u)', [list(p) for p in C.flip_ctrlpts(fu, su, sv)], P)
    g = _flat2(P, su, sv)
    t = C.flip_ctrlpts2d(g, su, sv)
    cx.eq('flip_ctrlpts2d', t, [[g[i][j] for i in range(su)] for j in range(sv)])
    cx.eq('flip_ctrlpts2d_involution', C.flip_ctrlpts2d(t, sv, su), g)
    cx.eq('flip_ctrlpts2d_autosize', C.flip_ctrlpts2d(g), t)
    cx.eq('flip_ctrlpts2d_only_size_u', C.flip_ctrlpts2d(g, size_u=su), t)
    cx.eq('flip_ctrlpts2d_only_size_v', C.flip_ctrlpts2d(g, size_v=sv), t)


def h_transpose(cx, sp, via):
    ops = geo.M('operations')
    obj, info = shapes.build(cx, sp)
    ref = shapes.clone(obj)
    plain0 = [list(p) for p in obj.ctrlpts]          # the flat unweighted view is looked at before transposing
    w0 = list(obj.weights) if obj.rational else None
    if via == 'method':
        obj.transpose()
        t = obj
    elif via == 'inplace':
        t = ops.transpose(obj, inplace=True)
        cx.check('same_object', t is obj)
    else:
        t = ops.transpose(obj)
        cx.check('new_object', t is not obj)
        shapes.same_state(cx, 'input_unchanged', obj, shapes.snapshot(ref))
    cx.eq('degrees_swapped', shapes.degrees(t), list(reversed(shapes.degrees(ref))))
    cx.eq('sizes_swapped', shapes.sizes(t), list(reversed(shapes.sizes(ref))))
    cx.eq('knots_swapped', shapes.knotvectors(t), list(reversed(shapes.knotvectors(ref))))
    prm = shapes.sym_params(cx, ref)
    cx.eq('T(v,u)==S(u,v)', t.evaluate_single((prm[1], prm[0])), ref.evaluate_single((prm[0], prm[1])))
    su, sv = shapes.sizes(ref)
    net, tnet = shapes.net(ref), shapes.net(t)
    for i in range(su):
        for j in range(sv):
            cx.eq('net[%d][%d]' % (i, j), tnet[i + su * j], net[j + sv * i])
    plain1 = [list(p) for p in t.ctrlpts]
    g1 = t.ctrlpts2d
    for i in range(su):
        for j in range(sv):
            cx.eq('ctrlpts[%d][%d]' % (i, j), plain1[i + su * j], plain0[j + sv * i])
            if w0 is not None:
                cx.eq('weights[%d][%d]' % (i, j), t.weights[i + su * j], w0[j + sv * i])
                cx.eq('ctrlpts2d[%d][%d]' % (i, j), list(g1[j][i]), [x * w0[j + sv * i] for x in plain0[j + sv * i]] + [w0[j + sv * i]])


def h_transpose_container(cx, shapes_list, inplace):
    """operations.transpose on a container whose members have the same number of control points but different net shapes"""
    ops = geo.M('operations')
    multi = geo.M('multi')
    objs = []
    for i, (degs, ms) in enumerate(shapes_list):
        sp = spec('surface', degs, ms, rational=(i % 2 == 1))
        sizes = [len(k) - d - 1 for k, d in zip(sp['kvs'], sp['degs'])]
        P = cx.points('P%d_' % i, sizes[0] * sizes[1], 3)
        W = cx.reals('w%d_' % i, sizes[0] * sizes[1], positive=True) if sp['rational'] else None
        objs.append(geo.make_surface(cx, degs[0], degs[1], cx.consts(sp['kvs'][0]), cx.consts(sp['kvs'][1]), sizes[0], sizes[1], P, W))
    refs = [shapes.clone(o) for o in objs]
    mc = multi.SurfaceContainer()
    for o in objs:
        mc.add(o)
    res = ops.transpose(mc, inplace=inplace)
    outs = [g for g in res]
    cx.check('count', len(outs) == len(objs))
    for i, (t, ref) in enumerate(zip(outs, refs)):
        cx.eq('elem%d.sizes_swapped' % i, shapes.sizes(t), list(reversed(shapes.sizes(ref))))
        prm = shapes.sym_params(cx, ref, prefix='e%d' % i)
        cx.eq('elem%d.T(v,u)==S(u,v)' % i, t.evaluate_single((prm[1], prm[0])), ref.evaluate_single((prm[0], prm[1])))


def h_extract_construct_surface(cx, sp, direction):
    """extract iso-curves along one direction and rebuild the surface along the matching direction"""
    con = geo.M('construct')
    obj, info = shapes.build(cx, sp)
    su, sv = info['sizes']
    P, W = info['P'], info['W']
    cur = con.extract_curves(obj)
    cx.check('count_u', len(cur['u']) == sv)
    cx.check('count_v', len(cur['v']) == su)
    # u-direction curves: one per v index, running through u
    for j, c in enumerate(cur['u']):
        cx.eq('ucurve[%d].ctrlpts' % j, [list(p) for p in c.ctrlpts], [P[j + sv * i] for i in range(su)])
        cx.eq('ucurve[%d].knots' % j, list(c.knotvector), list(obj.knotvector_u))
        if W:
            cx.eq('ucurve[%d].weights' % j, list(c.weights), [W[j + sv * i] for i in range(su)])
    for i, c in enumerate(cur['v']):
        cx.eq('vcurve[%d].ctrlpts' % i, [list(p) for p in c.ctrlpts], [P[j + sv * i] for j in range(sv)])
        if W:
            cx.eq('vcurve[%d].weights' % i, list(c.weights), [W[j + sv * i] for j in range(sv)])
    # the direction options select the families, they do not change them
    only_u = con.extract_curves(obj, extract_v=False)
    only_v = con.extract_curves(obj, extract_u=False)
    cx.check('extract_v=False', len(only_u.get('u', [])) == sv and len(only_u.get('v', [])) == 0, 'u:%d v:%d' % (len(only_u.get('u', [])), len(only_u.get('v', []))))
    cx.check('extract_u=False', len(only_v.get('v', [])) == su and len(only_v.get('u', [])) == 0, 'u:%d v:%d' % (len(only_v.get('u', [])), len(only_v.get('v', []))))
    for j, c in enumerate(only_u.get('u', [])):
        cx.eq('only_u[%d].ctrlpts' % j, [list(p) for p in c.ctrlpts], [P[j + sv * i] for i in range(su)])
    for i, c in enumerate(only_v.get('v', [])):
        cx.eq('only_v[%d].ctrlpts' % i, [list(p) for p in c.ctrlpts], [P[j + sv * i] for j in range(sv)])
    if direction == 'u':
        cur = dict(cur, v=only_v.get('v', []))          # rebuild from the family extracted on its own
    else:
        cur = dict(cur, u=only_u.get('u', []))
    # the curves that run along v (one per u index) are stacked along u, and vice versa
    if direction == 'u':
        s2 = con.construct_surface('u', *cur['v'], degree=obj.degree_u, knotvector=list(obj.knotvector_u))
    else:
        s2 = con.construct_surface('v', *cur['u'], degree=obj.degree_v, knotvector=list(obj.knotvector_v))
    cx.eq('rebuilt.sizes', shapes.sizes(s2), [su, sv])
    cx.eq('rebuilt.degrees', shapes.degrees(s2), shapes.degrees(obj))
    cx.eq('rebuilt.ctrlpts', [list(p) for p in s2.ctrlpts], [list(p) for p in P])
    # the `rational` keyword spelled out (same value as the default taken from the curves)
    if direction == 'u':
        s3 = con.construct_surface('u', *cur['v'], degree=obj.degree_u, knotvector=list(obj.knotvector_u), rational=bool(W))
    else:
        s3 = con.construct_surface('v', *cur['u'], degree=obj.degree_v, knotvector=list(obj.knotvector_v), rational=bool(W))
    cx.eq('rebuilt_explicit_rational.ctrlpts', [list(p) for p in s3.ctrlpts], [list(p) for p in P])
    cx.check('rebuilt_explicit_rational.kind', s3.rational == bool(W))
    if W:
        cx.eq('rebuilt_explicit_rational.weights', list(s3.weights), list(W))
        # rational=False with rational curves: the documented way to drop the weights -> the plain control net
        drop = con.construct_surface(direction, *(cur['v'] if direction == 'u' else cur['u']), degree=shapes.degrees(obj)[0 if direction == 'u' else 1],
                                     knotvector=list(shapes.knotvectors(obj)[0 if direction == 'u' else 1]), rational=False)
        cx.check('weights_dropped.kind', drop.rational is False)
        cx.check('weights_dropped.dimension', drop.dimension == sp['dim'], 'dimension %s' % drop.dimension)
        cx.eq('weights_dropped.ctrlpts', [list(p) for p in drop.ctrlpts], [list(p) for p in P])
    if W:
        cx.eq('rebuilt.weights', list(s2.weights), list(W))
    prm = shapes.sym_params(cx, obj)
    cx.eq('rebuilt.point', s2.evaluate_single(tuple(prm)), obj.evaluate_single(tuple(prm)))


def h_volume_views(cx, sp):
    obj, info = shapes.build(cx, sp)
    su, sv, sw = info['sizes']
    P, W = info['P'], info['W']
    net = [[x * w for x in p] + [w] for p, w in zip(P, W)] if W else [list(p) for p in P]
    CP = geo.M('control_points')
    m = CP.VolumeManager(su, sv, sw)
    for k in range(sw):
        for i in range(su):
            for j in range(sv):
                m.set_ctrlpt(list(net[j + sv * (i + su * k)]), i, j, k)
    cx.eq('manager.flat', [list(p) for p in m.ctrlpts], net)
    for k in range(sw):
        for i in range(su):
            for j in range(sv):
                cx.eq('manager.get[%d][%d][%d]' % (i, j, k), list(m.get_ctrlpt(i, j, k)), net[j + sv * (i + su * k)])
    o3 = type(obj)(normalize_kv=False)
    o3.degree_u, o3.degree_v, o3.degree_w = obj.degree_u, obj.degree_v, obj.degree_w
    o3.set_ctrlpts([list(p) for p in m.ctrlpts], su, sv, sw)
    o3.knotvector_u, o3.knotvector_v, o3.knotvector_w = list(obj.knotvector_u), list(obj.knotvector_v), list(obj.knotvector_w)
    prm = shapes.sym_params(cx, obj)
    ref = oracles.volume_point_def(sp['degs'], info['K'], info['sizes'], P, W, prm, cx)
    cx.eq('manager_volume.point', o3.evaluate_single(tuple(prm)), ref)
    cx.eq('volume.point', obj.evaluate_single(tuple(prm)), ref)


def h_extract_construct_volume(cx, sp, direction):
    con = geo.M('construct')
    obj, info = shapes.build(cx, sp)
    su, sv, sw = info['sizes']
    P, W = info['P'], info['W']
    idx = lambda i, j, k: j + sv * (i + su * k)
    srf = con.extract_surfaces(obj)
    cx.check('counts', (len(srf['uv']), len(srf['uw']), len(srf['vw'])) == (sw, sv, su))
    for k, s in enumerate(srf['uv']):
        cx.eq('uv[%d].ctrlpts' % k, [list(p) for p in s.ctrlpts], [P[idx(i, j, k)] for i in range(su) for j in range(sv)])
    for j, s in enumerate(srf['uw']):
        cx.eq('uw[%d].ctrlpts' % j, [list(p) for p in s.ctrlpts], [P[idx(i, j, k)] for i in range(su) for k in range(sw)])
    for i, s in enumerate(srf['vw']):
        cx.eq('vw[%d].ctrlpts' % i, [list(p) for p in s.ctrlpts], [P[idx(i, j, k)] for j in range(sv) for k in range(sw)])
        if W:
            cx.eq('vw[%d].weights' % i, list(s.weights), [W[idx(i, j, k)] for j in range(sv) for k in range(sw)])
    plane = {'u': 'vw', 'v': 'uw', 'w': 'uv'}[direction]
    d = 'uvw'.index(direction)
    v2 = con.construct_volume(direction, *srf[plane], degree=sp['degs'][d], knotvector=list(shapes.knotvectors(obj)[d]))
    cx.eq('rebuilt.sizes', shapes.sizes(v2), [su, sv, sw])
    cx.eq('rebuilt.degrees', shapes.degrees(v2), shapes.degrees(obj))
    cx.eq('rebuilt.knots', shapes.knotvectors(v2), shapes.knotvectors(obj))
    cx.eq('rebuilt.ctrlpts', [list(p) for p in v2.ctrlpts], [list(p) for p in P])
    if W:
        cx.eq('rebuilt.weights', list(v2.weights), list(W))
    prm = shapes.sym_params(cx, obj)
    cx.eq('rebuilt.point', v2.evaluate_single(tuple(prm)), obj.evaluate_single(tuple(prm)))
    iso = con.extract_isosurface(obj)
    cx.check('isosurface_count', len(iso) == 6)
    cx.eq('iso.uv0', [list(p) for p in iso[0].ctrlpts], [P[idx(i, j, 0)] for i in range(su) for j in range(sv)])
    cx.eq('iso.uv1', [list(p) for p in iso[1].ctrlpts], [P[idx(i, j, sw - 1)] for i in range(su) for j in range(sv)])
    cx.eq('iso.vw1', [list(p) for p in iso[5].ctrlpts], [P[idx(su - 1, j, k)] for j in range(sv) for k in range(sw)])


def h_sweep(cx, sp):
    sw = geo.M('sweeping')
    obj, info = shapes.build(cx, sp)
    vec = cx.reals('t', sp['dim'])
    before = shapes.snapshot(obj)
    res = sw.sweep_vector(obj, vec)
    shapes.same_state(cx, 'input_unchanged', obj, before)
    cx.check('pdimension', res.pdimension == obj.pdimension + 1)
    prm = shapes.sym_params(cx, obj)
    base = shapes.evaluate(obj, prm)
    moved = [x + t for x, t in zip(base, vec)]
    if obj.pdimension == 1:
        # swept along u: sections at u = 0 and u = 1, the curve parameter runs along v
        cx.eq('section0', res.evaluate_single((0, prm[0])), base)
        cx.eq('section1', res.evaluate_single((1, prm[0])), moved)
        half = cx.const(F(1, 2))
        cx.eq('section_half', res.evaluate_single((half, prm[0])), [x + t / 2 for x, t in zip(base, vec)])
    else:
        cx.eq('section0', res.evaluate_single((prm[0], prm[1], 0)), base)
        cx.eq('section1', res.evaluate_single((prm[0], prm[1], 1)), moved)


def instances(tier):
    out = []
    quick = tier == 'quick'
    surfs = [((1, 2), ((), ())), ((2, 1), ((), ())), ((2, 2), ((), (1,))), ((1, 1), ((1,), (1, 1)))]      # 2x3, 3x2, 3x4, 3x4
    if not quick:
        surfs += [((2, 2), ((1,), ())), ((1, 2), ((), (1, 1))), ((3, 1), ((1,), (1, 1, 1))), ((2, 3), ((1, 1, 1), ()))]
    for degs, ms in surfs:
        for rational in (False, True):
            sp = spec('surface', degs, ms, rational=rational)
            out.append(inst('%s views' % spec_name(sp), h_surface_views, timeout=1200, sp=sp))
            for via in ('method', 'inplace', 'copy'):
                out.append(inst('%s transpose %s' % (spec_name(sp), via), h_transpose, timeout=1200, sp=sp, via=via))
            for d in ('u', 'v'):
                out.append(inst('%s extract-construct %s' % (spec_name(sp), d), h_extract_construct_surface, timeout=1200, sp=sp, direction=d))
            out.append(inst('%s sweep' % spec_name(sp), h_sweep, timeout=1800, sp=sp))
    for su, sv in ((2, 3), (3, 2), (3, 4), (1, 3)):
        out.append(inst('flips %dx%d' % (su, sv), h_flips, su=su, sv=sv))
    same_count = [((1, 2), ((1,), (1,))), ((1, 1), ((), (1, 1, 1, 1))), ((2, 1), ((1,), (1,)))]       # 3x4, 2x6, 4x3: all 12 points
    for inplace in (False, True):
        out.append(inst('transpose container 3x4+2x6+4x3 inplace=%s' % inplace, h_transpose_container, timeout=1800, shapes_list=same_count, inplace=inplace))
    vols = [((1, 2, 1), ((), (), (1, 1))), ((2, 1, 1), ((), (), ()))]      # 2x3x4, 3x2x2
    if not quick:
        vols += [((1, 1, 2), ((), (1, 1), ())), ((1, 2, 2), ((1, 1), (), ())), ((2, 1, 3), ((), (1,), (1,))), ((1, 1, 1), ((1, 1, 1), (1,), ()))]
    for degs, ms in vols:
        for rational in (False, True):
            sp = spec('volume', degs, ms, rational=rational)
            out.append(inst('%s views' % spec_name(sp), h_volume_views, timeout=1800, sp=sp))
            for d in ('u', 'v', 'w'):
                out.append(inst('%s extract-construct %s' % (spec_name(sp), d), h_extract_construct_volume, timeout=1800, sp=sp, direction=d))
    out.append(inst('volume 4x3x2 views', h_volume_views, timeout=1800, sp=spec('volume', (1, 2, 1), ((1, 1), (), ()), rational=False)))
    for sp in (spec('curve', (2,), ((1,),), rational=False, dim=3), spec('curve', (2,), ((1,),), rational=True, dim=3), spec('curve', (1,), ((1,),), rational=False, dim=2)):
        out.append(inst('%s sweep' % spec_name(sp), h_sweep, timeout=900, sp=sp))
    return out


# ------------------------------------------------------------------------------------------------
# extra check: AST -> z3 (Int) over ALL sizes 1..64 of the flat index expressions in the current source

def extra_checks(tier, seed):
    from .. import astidx
    from ..run import REPO
    res, dt = astidx.run(REPO)
    out = []
    ok = [r for r in res if r['status'] == 'ok']
    skipped = [r for r in res if r['status'] == 'skipped']
    nq = sum(len(r.get('checks', [])) for r in res)
    for r in res:
        nm = 'index expression %s:%s L%d  %s[%s]' % (r['file'], r['func'], r['line'], r['array'], r['src'][:60])
        if r['status'] == 'cex':
            rp = r.get('replay', {})
            if rp.get('reproduced'):
                out.append({'name': nm, 'status': 'cex', 'base': 'index_' + r['label'], 'detail': '%s: %s' % (r['label'], rp.get('detail')), 'model': r['model']})
            else:
                out.append({'name': nm, 'status': 'inconclusive', 'detail': 'non-reproducing model: %s' % rp.get('detail')})
        elif r['status'] == 'unknown':
            out.append({'name': nm, 'status': 'inconclusive', 'detail': 'z3 unknown on %s' % r.get('checks')})
    out.append({'name': 'flat index expressions for all sizes 1..64 (AST -> z3 Int)', 'status': 'ok' if len(ok) >= 30 else 'inconclusive',
                'detail': '%d sites decided (in range, injective%s), %d skipped (%s), %d z3 queries, %.1fs' % (
                    len(ok), ', convention on %d' % sum(1 for r in ok if r.get('convention')), len(skipped),
                    '; '.join(sorted(set('%s:%s' % (r['file'], r['func']) for r in skipped))), nq, dt),
                'counts': {'obligations': nq, 'discharged': sum(1 for r in res for c in r.get('checks', []) if c[1] == 'unsat')}})
    return out
