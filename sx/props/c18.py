"""C18 - shapes stay inside the hull of their control points; bounding box; end points; length bounds."""
from fractions import Fraction as F
from itertools import product

from .. import core, families as fam
from .. import geo, shapes, oracles
from ..shapes import spec, spec_name
from ..run import inst

PROPERTY = 'C18'
ASSUMPTIONS = [
    'hull membership is shown by exhibiting the coefficients: on every path the evaluated coordinate is sum_j c_j Q_j over the degree+1 (per direction) active control points only, with the same c_j for every coordinate, sum c_j = 1 and c_j >= 0 (this is the definition of the convex hull, for every separating direction at once)',
    'weights positive; bounding box: all but two control points concrete (the running min/max forks over orders)',
    'length: sample sizes 2..3, the segment lengths are symbolic square roots s_i >= 0, s_i^2 = |E_i+1 - E_i|^2',
]
OUTSIDE = ['degrees > 3 (quick) / 4 (thorough)', 'rational surfaces beyond (1,2)/(2,1), rational volumes beyond (1,1,1)', 'length bounds for sample sizes > 3 (products of square roots: z3 answers unknown)']
BOUNDS = {'quick': 'curves p<=3 KQ patterns (+unclamped), surfaces (1,2),(2,1),(2,2), volumes (1,1,2); bbox n<=4 points; ends; length ss 2,3; backwards-sampled segments inside the bounding box; ends / bbox after the caller edits the list it assigned; knot vectors times a symbolic factor; copies inspected before the source',
          'thorough': 'curves p<=4, more patterns; surfaces (3,2) non-rational'}


def _bare_var(x):
    return isinstance(x, core.SymReal) and not x.r.d and len(x.r.n.t) == 1 and list(x.r.n.t.items())[0][1] == 1 and sum(p for _, p in list(x.r.n.t)[0]) == 1


def h_hull(cx, sp):
    obj, info = shapes.build(cx, sp)
    degs, sizes, Ks, P = sp['degs'], info['sizes'], info['K'], info['P']
    prm = shapes.sym_params(cx, obj)
    pt = shapes.evaluate(obj, prm)
    spans = [oracles.span_of(degs[d], Ks[d], prm[d], cx) for d in range(len(degs))]
    ranges = [range(spans[d] - degs[d], spans[d] + 1) for d in range(len(degs))]
    active = []
    for idx in product(*ranges):
        if len(idx) == 1:
            active.append(idx[0])
        elif len(idx) == 2:
            active.append(idx[1] + sizes[1] * idx[0])
        else:
            active.append(idx[1] + sizes[1] * (idx[0] + sizes[0] * idx[2]))
    cx.check('active_count', len(active) == len(set(active)))
    if obj.pdimension <= 2:
        # the library's own "active control points" query must name exactly this set (same order: u-major)
        ops = geo.M('operations')
        got = ops.find_ctrlpts(obj, *prm)
        flat = [list(q) for q in got] if obj.pdimension == 1 else [list(q) for row in got for q in row]
        cx.check('find_ctrlpts_count', len(flat) == len(active), '%d points for %d active' % (len(flat), len(active)))
        for q, j in zip(flat, active):
            if len(q) == sp['dim'] + 1:          # rational surfaces hand out homogeneous points
                q = [x / q[-1] for x in q[:-1]]
            cx.eq('find_ctrlpts_names_active_set[%d]' % j, q, P[j])
    if not cx.symbolic:
        # float replay: solve nothing, just check the necessary box condition per coordinate
        for d in range(sp['dim']):
            lo = min(P[j][d] for j in active)
            hi = max(P[j][d] for j in active)
            cx.ge('inside_hull_box_lo[%d]' % d, pt[d], lo)
            cx.ge('inside_hull_box_hi[%d]' % d, hi, pt[d])
        return
    coef = {j: core.diff(pt[0], P[j][0]) for j in active}
    tot = 0
    for j in active:
        tot = tot + coef[j]
        cx.ge('c>=0[%d]' % j, coef[j], 0)
    cx.eq('sum_c==1', tot, 1)
    for d in range(sp['dim']):
        comb = 0
        for j in active:
            comb = comb + coef[j] * P[j][d]
            if d:
                cx.eq('same_coefficient[%d][%d]' % (d, j), core.diff(pt[d], P[j][d]), coef[j])
        cx.eq('only_active_points[%d]' % d, pt[d], comb)


def h_ends(cx, sp, caller_edit=False, copy_first=False):
    obj, info = shapes.build(cx, sp, normalize_kv=False)
    sizes, P = info['sizes'], info['P']
    if copy_first:
        # a translated copy (default inplace=False) and a deep copy exist and are inspected BEFORE the source is
        import copy as _copy
        moved = geo.M('operations').translate(obj, cx.reals('tv', sp['dim']))
        moved.bbox
        [list(q) for q in moved.ctrlpts]
        twin = _copy.deepcopy(obj)
        geo.M('operations').scale(twin, 3, inplace=True)
        twin.bbox
        lo, hi = obj.bbox
        view = [list(q) for q in obj.ctrlpts]
        cx.eq('ctrlpts_view_of_source', view, P)
        for d in range(sp['dim']):
            for j in range(len(P)):
                cx.ge('bbox_min<=P[%d][%d]' % (j, d), P[j][d], lo[d])
                cx.ge('bbox_max>=P[%d][%d]' % (j, d), hi[d], P[j][d])
    if caller_edit:
        # the control net is replaced through the `ctrlpts` property and the caller goes on editing ITS list: whatever
        # the library kept (a copy or the list itself), the control-point view, the bounding box and the evaluated
        # corners must still describe one and the same shape
        L = [[cx.const(F((5 * i + 3 * d) % 7 - 3)) for d in range(sp['dim'])] for i in range(len(P))]
        L[0][0] = cx.real('Qa')          # (a fully symbolic net makes the min/max search of bbox fork over all orders)
        L[-1][sp['dim'] - 1] = cx.real('Qb')
        obj.ctrlpts = L
        D = cx.reals('D', sp['dim'])
        for q in L:
            for d in range(sp['dim']):
                q[d] = q[d] + D[d]
        P = [list(q) for q in obj.ctrlpts]
        lo, hi = obj.bbox
        for d in range(sp['dim']):
            for j in range(len(P)):
                cx.ge('bbox_min<=ctrlpts[%d][%d]' % (j, d), P[j][d], lo[d])
                cx.ge('bbox_max>=ctrlpts[%d][%d]' % (j, d), hi[d], P[j][d])
    dom = shapes.domain(obj)
    nd = len(sizes)
    for corner in product(*[(0, 1)] * nd):
        prm = [dom[d][c] for d, c in enumerate(corner)]
        idx = [0 if c == 0 else sizes[d] - 1 for d, c in enumerate(corner)]
        if nd == 1:
            flat = idx[0]
        elif nd == 2:
            flat = idx[1] + sizes[1] * idx[0]
        else:
            flat = idx[1] + sizes[1] * (idx[0] + sizes[0] * idx[2])
        cx.eq('corner%s' % (corner,), shapes.evaluate(obj, prm), P[flat])
    if nd == 1:
        obj.sample_size = 4
        ev = obj.evalpts
        cx.eq('evalpts_first', ev[0], P[0])
        cx.eq('evalpts_last', ev[-1], P[-1])


def h_bbox(cx, n, dim, via, nsym=2):
    U = geo.M('utilities')
    P = [[cx.const(F((5 * i + 3 * d) % 7 - 3)) for d in range(dim)] for i in range(n)]
    for k in range(nsym):
        P[(2 * k + 1) % n] = cx.reals('S%d_' % k, dim)
    if via == 'function':
        bb = U.evaluate_bounding_box(P)
    else:
        sp = spec('curve', (n - 1,), ((),), rational=False, dim=dim)
        c = geo.make_curve(cx, n - 1, cx.consts(sp['kvs'][0]), P, None)
        bb = c.bbox
    lo, hi = bb
    cx.check('shape', len(lo) == dim and len(hi) == dim)
    for d in range(dim):
        for i in range(n):
            cx.ge('min<=P[%d][%d]' % (i, d), P[i][d], lo[d])
            cx.ge('max>=P[%d][%d]' % (i, d), hi[d], P[i][d])
        cx.check('min_attained[%d]' % d, any(cx.holds(lo[d] == P[i][d]) for i in range(n)))
        cx.check('max_attained[%d]' % d, any(cx.holds(hi[d] == P[i][d]) for i in range(n)))


def h_grid_bbox(cx, degs, ms, ss, rng):
    """every point of a sampled segment / sub-rectangle (start > stop: swept backwards) lies inside the reported
    bounding box and the first / last samples are the segment ends"""
    sp = spec('curve' if len(degs) == 1 else 'surface', degs, ms, rational=False, dim=2)
    kvs = sp['kvs']
    sizes = [len(k) - d - 1 for k, d in zip(kvs, degs)]
    n = sizes[0] * (sizes[1] if len(sizes) > 1 else 1)
    P = [[cx.const(F((5 * i + 3 * d) % 7 - 3)) for d in range(2)] for i in range(n)]
    P[1] = cx.reals('Sa', 2)
    P[n - 2][1] = cx.real('Sb')
    Ks = [cx.consts(k) for k in kvs]
    if len(degs) == 1:
        obj = geo.make_curve(cx, degs[0], Ks[0], P, None)
        obj.sample_size = ss
        try:
            obj.evaluate(start=cx.const(rng[0]), stop=cx.const(rng[1]))
        except (ValueError, geo.M('exceptions').GeomdlException):
            if rng[0] > rng[1]:
                return          # a backwards segment may be refused
            raise
        ends = [obj.evaluate_single(cx.const(rng[0])), obj.evaluate_single(cx.const(rng[1]))]
    else:
        obj = geo.make_surface(cx, degs[0], degs[1], Ks[0], Ks[1], sizes[0], sizes[1], P, None)
        obj.sample_size_u = obj.sample_size_v = ss
        try:
            obj.evaluate(start_u=cx.const(rng[0]), stop_u=cx.const(rng[1]), start_v=cx.const(rng[2]), stop_v=cx.const(rng[3]))
        except (ValueError, geo.M('exceptions').GeomdlException):
            if rng[0] > rng[1] or rng[2] > rng[3]:
                return
            raise
        ends = [obj.evaluate_single((cx.const(rng[0]), cx.const(rng[2]))), obj.evaluate_single((cx.const(rng[1]), cx.const(rng[3])))]
    pts = obj.evalpts
    cx.check('samples', len(pts) == (ss if len(degs) == 1 else ss * ss), '%d samples' % len(pts))
    cx.eq('first_sample', pts[0], ends[0])
    cx.eq('last_sample', pts[-1], ends[1])
    lo, hi = obj.bbox
    for k, pt in enumerate(pts):
        for d in range(2):
            cx.ge('sample>=bbox_min[%d][%d]' % (k, d), pt[d], lo[d])
            cx.ge('sample<=bbox_max[%d][%d]' % (k, d), hi[d], pt[d])


def h_length(cx, p, m, ss, upper, lo=0, hi=1):
    ops = geo.M('operations')
    sp = spec('curve', (p,), (m,), rational=False, dim=2, lo=lo, hi=hi)
    obj, info = shapes.build(cx, sp, normalize_kv=(lo == 0 and hi == 1))
    P = info['P']
    obj.sample_size = ss
    L = ops.length_curve(obj)
    ev = obj.evalpts
    cx.check('samples', len(ev) == ss)
    d2 = lambda a, b: sum(((x - y) * (x - y) for x, y in zip(a[1:], b[1:])), (a[0] - b[0]) * (a[0] - b[0]))
    cx.ge('length>=0', L, 0)
    chord = cx.sqrt(d2(ev[0], ev[-1]))
    cx.ge('length>=chord', L, chord)
    cx.eq('ends', [ev[0], ev[-1]], [P[0], P[-1]])
    if upper:
        poly = 0
        for a, b in zip(P, P[1:]):
            poly = poly + cx.sqrt(d2(a, b))
        cx.ge('length<=control_polygon', poly, L)


def instances(tier):
    out = []
    quick = tier == 'quick'
    for p in ((1, 2, 3) if quick else (1, 2, 3, 4)):
        for m in fam.kq_patterns(p) if quick else fam.kt_patterns(p, 2):
            for rational in (False, True):
                sp = spec('curve', (p,), (m,), rational=rational, dim=2 if rational else 3)
                out.append(inst('%s hull' % spec_name(sp), h_hull, timeout=900, sp=sp))
        sp = spec('curve', (p,), ((1,),), rational=True)
        out.append(inst('%s ends' % spec_name(sp), h_ends, sp=sp))
        out.append(inst('curve p%d unclamped hull' % p, h_hull, timeout=900,
                        sp=dict(kind='curve', degs=(p,), kvs=[fam.unclamped_uniform(p, p + 3)], dim=2, rational=True, mults=('unclamped',))))
    surf = [((1, 2), ((1,), ())), ((2, 1), ((), (1,))), ((2, 2), ((1,), (1,))), ((1, 2), ((1, 1), ())), ((1, 1), ((), (1, 1)))] + ([] if quick else [((3, 2), ((), (1,)))])
    for degs, ms in surf:
        for rational in (False, True):
            if rational and sum(degs) > 3:
                continue
            sp = spec('surface', degs, ms, rational=rational)
            out.append(inst('%s hull' % spec_name(sp), h_hull, timeout=1800, sp=sp))
        out.append(inst('%s ends' % spec_name(spec('surface', degs, ms, rational=True)), h_ends, timeout=900, sp=spec('surface', degs, ms, rational=True)))
    for degs, ms, rational in [((1, 1, 2), ((1,), (), ()), False), ((1, 1, 1), ((), (), ()), True)]:
        sp = spec('volume', degs, ms, rational=rational)
        out.append(inst('%s hull' % spec_name(sp), h_hull, timeout=2400, sp=sp))
        out.append(inst('%s ends' % spec_name(sp), h_ends, timeout=900, sp=sp))
    for sp in (spec('curve', (2,), ((1,),), rational=True), spec('curve', (2,), ((1,),), rational=False),
               spec('surface', (1, 2), ((), ()), rational=True), spec('surface', (2, 1), ((), ()), rational=False),
               spec('volume', (1, 1, 1), ((), (), ()), rational=True), spec('volume', (1, 1, 1), ((), (), ()), rational=False)):
        out.append(inst('%s ends after caller edits its list' % spec_name(sp), h_ends, timeout=900, sp=sp, caller_edit=True))
    for degs, ms, ss, rng in [((2,), ((1, 1),), 5, (F(9, 10), F(1, 10))), ((3,), ((1,),), 4, (F(1), F(0))), ((2,), ((2,),), 4, (F(1, 5), F(4, 5))),
                              ((1, 2), ((1,), (1,)), 3, (F(0), F(1), F(1), F(0))), ((2, 1), ((), (1, 1)), 3, (F(3, 4), F(1, 4), F(9, 10), F(1, 10)))]:
        out.append(inst('sampled segment %s inside bbox p%s m%s ss%d' % (tuple(str(x) for x in rng), degs, ms, ss), h_grid_bbox, timeout=900, degs=degs, ms=ms, ss=ss, rng=rng))
    # knot vectors times one symbolic factor (a last knot interval of any width)
    for sp in (spec('curve', (2,), ((1, 1),), rational=False, dim=2, kscaled=True), spec('curve', (3,), ((1,),), rational=True, dim=2, kscaled=True),
               spec('surface', (1, 2), ((1,), (1,)), rational=False, kscaled=True)):
        out.append(inst('%s hull' % spec_name(sp), h_hull, timeout=1800, sp=sp))
        out.append(inst('%s ends' % spec_name(sp), h_ends, timeout=900, sp=sp))
    for sp in (spec('curve', (2,), ((1,),), rational=True, scaled=True), spec('surface', (1, 2), ((), ()), rational=True, scaled=True),
               spec('volume', (1, 1, 1), ((), (), ()), rational=True, scaled=True), spec('curve', (2,), ((1,),), rational=False, scaled=True)):
        out.append(inst('%s ends after copies were inspected' % spec_name(sp), h_ends, timeout=2400, sp=sp, copy_first=True))
    for p in (1, 2, 3):
        sp = spec('curve', (p,), ((1,),), rational=(p != 2), lo=2, hi=5)
        out.append(inst('%s ends' % spec_name(sp), h_ends, sp=sp))
    out.append(inst('surface p1,2 dom[2,5] ends', h_ends, timeout=900, sp=spec('surface', (1, 2), ((1,), ()), rational=False, lo=2, hi=5)))
    out.append(inst('length p2 m() ss3 dom[2,5]', h_length, timeout=1200, p=2, m=(), ss=3, upper=False, lo=2, hi=5))
    out.append(inst('length p1 m(1,) ss3 dom[2,5] upper', h_length, timeout=1200, p=1, m=(1,), ss=3, upper=True, lo=2, hi=5))
    for n, dim in ((3, 2), (4, 2), (4, 3)) + (() if quick else ((5, 2),)):
        for via in ('function', 'bbox'):
            out.append(inst('bbox n%d dim%d %s' % (n, dim, via), h_bbox, timeout=1200, n=n, dim=dim, via=via))
    for p, m, ss, upper in [(1, (), 2, True), (2, (), 2, True), (2, (), 3, False), (1, (1,), 3, True), (3, (), 2, False), (2, (1,), 3, False)]:
        out.append(inst('length p%d m%s ss%d%s' % (p, m, ss, ' upper' if upper else ''), h_length, timeout=1200, p=p, m=m, ss=ss, upper=upper))
    return out
