"""C07 - splitting and Bezier decomposition reproduce the original piecewise."""
from fractions import Fraction as F

from .. import families as fam
from .. import geo, shapes
from ..shapes import spec, spec_name
from ..run import inst

PROPERTY = 'C07'
ASSUMPTIONS = [
    'split parameter strictly inside the domain, equal to a knot or farther than 1e-5 from every knot (snap zone)',
    'pieces are re-normalised to [0,1] by the constructors: piece k at t is compared with the original at a_k + t (b_k - a_k)',
    'weights positive',
]
OUTSIDE = ['degrees > 3', 'volumes (the library has no volume split)', 'more than 3 distinct interior knots']
BOUNDS = {'quick': 'curves p<=3 KQ patterns; surfaces degrees<=2 split u/v, decompose u/v/uv; shifted knot vectors; split after a sibling was split / decomposed; tuple knot vectors incl. splits on full-multiplicity knots',
          'thorough': 'curves p<=4; surfaces to (3,2)'}


def _piece_check(cx, name, piece, ref, maps, tnames):
    """maps: per direction (a, b): original sub-interval; local parameters are symbolic in [0,1]"""
    ts = [cx.real(tn, lo=0, hi=1, param=True) for tn in tnames]
    us = [a + t * (b - a) for (a, b), t in zip(maps, ts)]
    cx.eq(name + '.point', shapes.evaluate(piece, ts), shapes.evaluate(ref, us))


def h_split(cx, sp, d, after_sibling=False):
    ops = geo.M('operations')
    obj, info = shapes.build(cx, sp)
    before = shapes.snapshot(obj)
    ref = shapes.clone(obj)
    dom = shapes.domain(obj)
    kv = before['kvs'][d]
    x = cx.real('x', param=True)
    cx.assume(x > dom[d][0], check=False)
    cx.assume(x < dom[d][1], check=False)
    cx.snap(x, kv)
    def _split(o):
        if o.pdimension == 1:
            return ops.split_curve(o, x)
        return ops.split_surface_u(o, x) if d == 0 else ops.split_surface_v(o, x)
    if after_sibling:
        shapes.prime_with_sibling(cx, sp, lambda sib, _i: (_split(sib), ops.decompose_curve(sib) if sib.pdimension == 1 else ops.decompose_surface(sib)))
    pieces = _split(obj)
    shapes.same_state(cx, 'input_unchanged', obj, before)
    cx.check('two_pieces', len(pieces) == 2)
    names = ['t%s' % c for c in shapes.DIRS[:obj.pdimension]]
    for k, piece in enumerate(pieces):
        maps = list(dom)
        maps[d] = (dom[d][0], x) if k == 0 else (x, dom[d][1])
        cx.eq('piece%d.degrees' % k, shapes.degrees(piece), before['degs'])
        cx.check('piece%d.kind' % k, type(piece) is type(obj))
        for dd in range(obj.pdimension):
            pk = shapes.knotvectors(piece)[dd]
            cx.check('piece%d.kvlen_%s' % (k, shapes.DIRS[dd]), len(pk) == shapes.sizes(piece)[dd] + before['degs'][dd] + 1)
        _piece_check(cx, 'piece%d' % k, piece, ref, maps, ['%s_%d' % (n, k) for n in names])


def h_split_edge(cx, sp, d, end):
    ops = geo.M('operations')
    GE = geo.M('exceptions').GeomdlException
    obj, info = shapes.build(cx, sp)
    before = shapes.snapshot(obj)
    x = shapes.domain(obj)[d][end]
    fn = ops.split_curve if obj.pdimension == 1 else (ops.split_surface_u if d == 0 else ops.split_surface_v)
    cx.expect_raises('edge_rejected', GE, fn, obj, x)
    shapes.same_state(cx, 'input_unchanged', obj, before)


def h_decompose(cx, sp, ddir):
    ops = geo.M('operations')
    obj, info = shapes.build(cx, sp)
    before = shapes.snapshot(obj)
    ref = shapes.clone(obj)
    pd = obj.pdimension
    ivs = []
    for dd in range(pd):
        p = sp['degs'][dd]
        kv = sp['kvs'][dd]
        dist = fam.distinct(kv[p:len(kv) - p])
        ivs.append(list(zip(dist, dist[1:])))
    if pd == 1:
        pieces = ops.decompose_curve(obj)
        expect = [[iv] for iv in ivs[0]]
        bez = [0]
    else:
        pieces = ops.decompose_surface(obj, decompose_dir=ddir)
        full = [[(sp['kvs'][dd][0], sp['kvs'][dd][-1])] for dd in range(2)]
        iu = ivs[0] if 'u' in ddir else full[0]
        iv_ = ivs[1] if 'v' in ddir else full[1]
        expect = [[a, b] for a in iu for b in iv_]
        bez = [i for i, c in enumerate('uv') if c in ddir]
    shapes.same_state(cx, 'input_unchanged', obj, before)
    cx.check('piece_count', len(pieces) == len(expect), 'got %d pieces, expected %d' % (len(pieces), len(expect)))
    names = ['t%s' % c for c in shapes.DIRS[:pd]]
    for k, (piece, maps) in enumerate(zip(pieces, expect)):
        cx.eq('piece%d.degrees' % k, shapes.degrees(piece), before['degs'])
        for dd in bez:
            p = sp['degs'][dd]
            cx.eq('piece%d.bezier_kv_%s' % (k, shapes.DIRS[dd]), shapes.knotvectors(piece)[dd], [0] * (p + 1) + [1] * (p + 1))
            cx.check('piece%d.size_%s' % (k, shapes.DIRS[dd]), shapes.sizes(piece)[dd] == p + 1)
        maps = [(cx.const(a), cx.const(b)) for a, b in maps]
        _piece_check(cx, 'piece%d' % k, piece, ref, maps, ['%s_%d' % (n, k) for n in names])


def instances(tier):
    out = []
    quick = tier == 'quick'

    def add(kind, fn, sp, timeout=900, **kw):
        nm = ('%s %s %s' % (spec_name(sp), kind, ' '.join('%s=%s' % kv for kv in sorted(kw.items())))).strip()
        if not any(i.name == nm for i in out):
            out.append(inst(nm.strip(), fn, timeout=timeout, sp=sp, **kw))

    # knot vectors assigned as tuples (normalize_kv=False keeps the caller's object), splits on knots of full multiplicity included
    add('split', h_split, spec('curve', (2,), ((2,),), rational=False, dim=2, tuple_kv=True), d=0)
    add('split', h_split, spec('curve', (3,), ((3, 1),), rational=True, dim=2, tuple_kv=True), d=0)
    add('split', h_split, spec('surface', (1, 2), ((1,), (2,)), rational=False, tuple_kv=True), timeout=1800, d=1)
    add('split', h_split, spec('surface', (2, 1), ((2,), (1,)), rational=False, tuple_kv=True), timeout=1800, d=0)
    add('decompose', h_decompose, spec('curve', (2,), ((2, 1),), rational=False, dim=2, tuple_kv=True), ddir='u')
    add('decompose', h_decompose, spec('surface', (1, 2), ((1,), (2,)), rational=False, tuple_kv=True), timeout=1800, ddir='uv')
    # knot vectors moved by a symbolic offset of any magnitude
    add('split', h_split, spec('curve', (2,), ((1, 1),), rational=False, dim=2, shifted=True), d=0)
    add('split', h_split, spec('curve', (3,), ((2,),), rational=True, dim=2, shifted=True), d=0)
    add('split', h_split, spec('surface', (1, 2), ((1,), (1,)), rational=False, shifted=True), timeout=1800, d=1)
    add('split', h_split, spec('curve', (2,), ((1,),), rational=False, dim=3), d=0, after_sibling=True)
    add('split', h_split, spec('curve', (2,), ((1, 1),), rational=False, dim=2), d=0, after_sibling=True)
    add('split', h_split, spec('curve', (3,), ((1, 1, 1),), rational=False, dim=2), d=0, after_sibling=True)
    add('split', h_split, spec('surface', (2, 1), ((1, 1), ()), rational=False), timeout=1800, d=0, after_sibling=True)
    add('split', h_split, spec('curve', (3,), ((2,),), rational=True, dim=2), d=0, after_sibling=True)
    add('split', h_split, spec('surface', (1, 2), ((1,), ()), rational=False), timeout=1800, d=1, after_sibling=True)
    add('split', h_split, spec('surface', (2, 1), ((), (1,)), rational=True), timeout=1800, d=0, after_sibling=True)
    for p in ((1, 2, 3) if quick else (1, 2, 3, 4)):
        pats = [(), (1,), (p,), (1, 1)] + ([(2,), (1, 2)] if p >= 2 else []) + ([] if quick else [(1, p, 1)])
        for m in pats:
            for rational in (False, True):
                sp = spec('curve', (p,), (m,), rational=rational, dim=2 if rational else 3)
                add('split', h_split, sp, d=0)
                if m:
                    add('decompose', h_decompose, sp, ddir='u')
        sp = spec('curve', (p,), ((1,),), rational=True)
        add('split_edge', h_split_edge, sp, d=0, end=0)
        add('split_edge', h_split_edge, sp, d=0, end=1)
    add('split', h_split, spec('curve', (2,), ((1,),), rational=True, lo=2, hi=5), d=0)
    for sp in (spec('curve', (2,), ((1, 1),), rational=False, lo=-1, hi=1), spec('curve', (3,), ((1,),), rational=True, lo=-2, hi=3)):
        add('split', h_split, sp, d=0)
        add('decompose', h_decompose, sp, ddir='u')
    for doms in ([(-1, 1), (-2, 3)], [(0, 1), (0, 2)], [(0, 2), (0, 1)]):
        sp = spec('surface', (2, 1), ((1,), (1,)), rational=False, doms=doms)
        for d in (0, 1):
            add('split', h_split, sp, timeout=1800, d=d)
        for ddir in ('u', 'v', 'uv'):
            add('decompose', h_decompose, sp, timeout=1800, ddir=ddir)
    surf = [((1, 2), ((1,), ())), ((2, 1), ((), (1,))), ((2, 2), ((1,), (2,))), ((3, 2), ((1, 1), (1,))), ((2, 3), ((1,), (1, 1)))]
    if quick:
        surf = surf[:3] + [((3, 2), ((1, 1), (1,)))]
    surf += [((2, 1), ((1,), (1, 1))), ((1, 2), ((), (1,)))]
    for degs, ms in surf:
        for rational in (False, True):
            sp = spec('surface', degs, ms, rational=rational)
            big = degs[0] + degs[1] >= 5
            if quick and rational and big:
                continue
            for d in (0, 1):
                add('split', h_split, sp, timeout=1800, d=d)
            for ddir in ('u', 'v', 'uv'):
                add('decompose', h_decompose, sp, timeout=1800, ddir=ddir)
        sp = spec('surface', degs, ms, rational=False)
        for d in (0, 1):
            for end in (0, 1):
                add('split_edge', h_split_edge, sp, d=d, end=end)
    return out
