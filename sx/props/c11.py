"""C11 - fitted curves and surfaces meet interpolation and least-squares conditions (assume-guarantee split)."""
from fractions import Fraction as F

from .. import core, geo, oracles
from ..run import inst

PROPERTY = 'C11'
ASSUMPTIONS = [
    'assume-guarantee split (DESIGN C11): (1) the parameter functions satisfy their contract and equal the chord-length / centripetal '
    'definition for symbolic data; (2)+(3) interpolation / approximation hold for parameter vectors supplied by a stub that replaces '
    'compute_params_curve/surface: symbolic increasing parameters for <= 4 points, fixed rational parameter families beyond',
    'consecutive data points are distinct (squared distance >= 1e-6)',
]
OUTSIDE = ['more than 8 (quick) / 16 (thorough) data points per direction (the property goes to 40)', 'end-to-end runs with symbolic chord-length parameters (nested square roots feeding span search)',
           'minimality beyond the normal equations (N^T N is positive definite)']
BOUNDS = {'quick': 'params: 3-4 points 2-D/3-D, both parametrisations, surfaces 2x3/3x3; interpolate: symbolic parameters n=3,4 p<=3, rational families n<=8 p<=3, surfaces to 4x5; approximate: n<=8; parameters of grids with a shrunk (symbolic factor) row / column / whole grid; square grids with the same parameters in both directions and different degrees',
          'thorough': 'rational families n<=12, p<=5, surfaces to 6x5'}


def _param_family(name, n):
    if name == 'uniform':
        return [F(i, n - 1) for i in range(n)]
    if name == 'geometric':
        raw = [F(2 ** i - 1) for i in range(n)]
        return [x / raw[-1] for x in raw]
    if name == 'clustered':
        return [F(0)] + [F(1, 3) + F(i, 10 * n) for i in range(1, n - 1)] + [F(1)]
    if name == 'chordlike':
        raw = [F(0)]
        for i in range(1, n):
            raw.append(raw[-1] + F(1 + (i * 7) % 5, 3))
        return [x / raw[-1] for x in raw]
    raise ValueError(name)


def _dist(cx, a, b):
    return cx.sqrt(sum(((x - y) * (x - y) for x, y in zip(a[1:], b[1:])), (a[0] - b[0]) * (a[0] - b[0])))


def _distinct(cx, pts):
    """consecutive points at least 1e-3 apart; the (implied) linear facts  d >= 1e-3, sqrt(d) >= 1/32  are stated for the solver"""
    for a, b in zip(pts, pts[1:]):
        cx.assume(sum(((x - y) * (x - y) for x, y in zip(a[1:], b[1:])), (a[0] - b[0]) * (a[0] - b[0])) >= F(1, 10 ** 6), check=False)
        d = _dist(cx, b, a)
        cx.assume(d >= F(1, 1000), check=False)
        cx.assume(cx.sqrt(d) >= F(1, 32), check=False)


def _params_def(cx, pts, centripetal):
    ds = [_dist(cx, a, b) for a, b in zip(pts[1:], pts)]
    if centripetal:
        ds = [cx.sqrt(d) for d in ds]
    tot = sum(ds[1:], ds[0])
    out = [0]
    acc = 0
    for d in ds:
        acc = acc + d
        out.append(acc / tot)
    return out


def h_params_curve(cx, n, dim, centripetal):
    Fit = geo.M('fitting')
    pts = cx.points('Q', n, dim)
    _distinct(cx, pts)
    uk = Fit.compute_params_curve([list(p) for p in pts], centripetal)
    cx.check('len', len(uk) == n)
    cx.eq('first', uk[0], 0)
    cx.eq('last', uk[-1], 1)
    ref = _params_def(cx, pts, centripetal)
    cx.eq('definition', list(uk), ref)
    for i in range(n - 1):
        cx.gt('increasing[%d]' % i, uk[i + 1], uk[i])


def h_params_surface(cx, su, sv, centripetal):
    Fit = geo.M('fitting')
    pts = cx.points('Q', su * sv, 3)
    for i in range(su):
        _distinct(cx, [pts[j + sv * i] for j in range(sv)])
    for j in range(sv):
        _distinct(cx, [pts[j + sv * i] for i in range(su)])
    uk, vl = Fit.compute_params_surface([list(p) for p in pts], su, sv, centripetal)
    cx.check('len', (len(uk), len(vl)) == (su, sv))
    # definition: average of the curve parametrisations of the rows / columns
    ref_u = [0] * su
    for j in range(sv):
        col = _params_def(cx, [pts[j + sv * i] for i in range(su)], centripetal)
        ref_u = [a + b for a, b in zip(ref_u, col)]
    ref_v = [0] * sv
    for i in range(su):
        row = _params_def(cx, [pts[j + sv * i] for j in range(sv)], centripetal)
        ref_v = [a + b for a, b in zip(ref_v, row)]
    cx.eq('uk', list(uk), [x / sv for x in ref_u])
    cx.eq('vl', list(vl), [x / su for x in ref_v])
    cx.eq('ends', [uk[0], uk[-1], vl[0], vl[-1]], [0, 1, 0, 1])


def h_params_surface_scaled(cx, su, sv, centripetal, tiny):
    """data of every size: a fixed axis-aligned grid whose row / column `tiny` (or the whole grid) is shrunk by ONE symbolic
    factor sc > 0 - the parameters are defined by ratios of chord lengths, so a micro-scale row counts like any other"""
    Fit = geo.M('fitting')
    sc = cx.real('sc', lo=0)
    cx.assume(sc > 0)
    A = [0, 1, 3, 7, 8, 12][:max(su, sv)]          # spacings 1, 2, 4, 1, 4
    B = [0, 2, 3, 6, 10, 11][:max(su, sv)]         # spacings 2, 1, 3, 4, 1
    pts = []
    for i in range(su):
        for j in range(sv):
            x, y = cx.const(B[i] if j % 2 else A[i]), cx.const(A[j] if i % 2 else B[j])
            if tiny == 'all':
                x, y = x * sc, y * sc
            elif tiny[0] == 'row' and i == tiny[1]:
                y = cx.const(A[j]) * sc
            elif tiny[0] == 'col' and j == tiny[1]:
                x = cx.const(A[i]) * sc
            pts.append([x, y, cx.const(0)])
    uk, vl = Fit.compute_params_surface([list(p) for p in pts], su, sv, centripetal)
    cx.check('len', (len(uk), len(vl)) == (su, sv))
    ref_u = [0] * su
    for j in range(sv):
        col = _params_def(cx, [pts[j + sv * i] for i in range(su)], centripetal)
        ref_u = [a + b for a, b in zip(ref_u, col)]
    ref_v = [0] * sv
    for i in range(su):
        row = _params_def(cx, [pts[j + sv * i] for j in range(sv)], centripetal)
        ref_v = [a + b for a, b in zip(ref_v, row)]
    cx.eq('uk', list(uk), [x / sv for x in ref_u])
    cx.eq('vl', list(vl), [x / su for x in ref_v])


def h_knot_vector(cx, p, n, ncp=None):
    """compute_knot_vector(2) on symbolic increasing parameters: clamped, non-decreasing, right length"""
    Fit = geo.M('fitting')
    t = _sym_params(cx, n)
    if ncp is None:
        kv = Fit.compute_knot_vector(p, n, t)
        m = n
    else:
        kv = Fit.compute_knot_vector2(p, n, ncp, t)
        m = ncp
    cx.check('len', len(kv) == m + p + 1, 'len %d' % len(kv))
    for i in range(p + 1):
        cx.eq('start[%d]' % i, kv[i], 0)
        cx.eq('end[%d]' % i, kv[-1 - i], 1)
    for i in range(len(kv) - 1):
        cx.ge('nondecreasing[%d]' % i, kv[i + 1], kv[i])
    for i in range(p + 1, len(kv) - p - 1):
        cx.gt('interior>0[%d]' % i, kv[i], 0)
        cx.gt('interior<1[%d]' % i, 1, kv[i])


def _sym_params(cx, n):
    t = [cx.const(0)]
    for i in range(1, n - 1):
        x = cx.real('t%d' % i, param=True)
        cx.assume(x - t[-1] >= F(1, 100), check=False)
        t.append(x)
    if n > 2:
        cx.assume(1 - t[-1] >= F(1, 100), check=False)
    t.append(cx.const(1))
    return t


class _Stub:
    """replaces fitting.compute_params_curve / compute_params_surface for the duration of a harness"""
    def __init__(self, curve=None, surface=None):
        self.curve, self.surface = curve, surface

    def __enter__(self):
        Fit = geo.M('fitting')
        self.old = (Fit.compute_params_curve, Fit.compute_params_surface)
        if self.curve is not None:
            Fit.compute_params_curve = lambda points, centripetal=False: list(self.curve)
        if self.surface is not None:
            Fit.compute_params_surface = lambda points, size_u, size_v, centripetal=False: (list(self.surface[0]), list(self.surface[1]))
        return self

    def __exit__(self, *a):
        Fit = geo.M('fitting')
        Fit.compute_params_curve, Fit.compute_params_surface = self.old
        return False


def h_interpolate_curve(cx, n, p, dim, family):
    Fit = geo.M('fitting')
    pts = cx.points('Q', n, dim)
    t = _sym_params(cx, n) if family == 'symbolic' else cx.consts(_param_family(family, n))
    with _Stub(curve=t):
        c = Fit.interpolate_curve([list(q) for q in pts], p)
    cx.check('degree', c.degree == p)
    cx.check('ctrlpts_size', c.ctrlpts_size == n)
    for i in range(n):
        cx.eq('interpolates[%d]' % i, c.evaluate_single(t[i]), pts[i])


def h_interpolate_surface(cx, su, sv, pu, pv, family, same_params=False):
    Fit = geo.M('fitting')
    pts = cx.points('Q', su * sv, 3)
    uk = cx.consts(_param_family(family, su))
    vl = cx.consts(_param_family('geometric' if family == 'uniform' else 'uniform', sv))
    if same_params:
        vl = list(uk)          # square grid, the very same parameters in both directions (but other degrees)
    with _Stub(curve=None, surface=(uk, vl)):
        s = Fit.interpolate_surface([list(q) for q in pts], su, sv, pu, pv)
    cx.check('degrees', (s.degree_u, s.degree_v) == (pu, pv))
    cx.check('sizes', (s.ctrlpts_size_u, s.ctrlpts_size_v) == (su, sv))
    for i in range(su):
        for j in range(sv):
            cx.eq('interpolates[%d][%d]' % (i, j), s.evaluate_single((uk[i], vl[j])), pts[j + sv * i])


def h_approximate_curve(cx, n, p, ncp, dim, family):
    Fit = geo.M('fitting')
    pts = cx.points('Q', n, dim)
    t = _sym_params(cx, n) if family == 'symbolic' else cx.consts(_param_family(family, n))
    with _Stub(curve=t):
        c = Fit.approximate_curve([list(q) for q in pts], p, ctrlpts_size=ncp)
    cx.check('degree', c.degree == p)
    cx.check('ctrlpts_size', c.ctrlpts_size == ncp, 'size %d' % c.ctrlpts_size)
    cx.eq('start', c.evaluate_single(0), pts[0])
    cx.eq('end', c.evaluate_single(1), pts[-1])
    # normal equations of the least-squares problem over the interior control points (gradient = 0)
    K = list(c.knotvector)
    N = [oracles.all_basis_def(p, K, t[k], cx) for k in range(n)]
    C = [c.evaluate_single(t[k]) for k in range(n)]
    for j in range(1, ncp - 1):
        for d in range(dim):
            g = 0
            for k in range(1, n - 1):
                g = g + N[k][j] * (pts[k][d] - C[k][d])
            cx.eq('normal_equation[%d][%d]' % (j, d), g, 0)


def h_approximate_surface(cx, su, sv, pu, pv, cu, cv, family):
    Fit = geo.M('fitting')
    pts = cx.points('Q', su * sv, 3)
    uk = cx.consts(_param_family(family, su))
    vl = cx.consts(_param_family('uniform', sv))
    with _Stub(surface=(uk, vl), curve=None):
        s = Fit.approximate_surface([list(q) for q in pts], su, sv, pu, pv, ctrlpts_size_u=cu, ctrlpts_size_v=cv)
    cx.check('degrees', (s.degree_u, s.degree_v) == (pu, pv))
    cx.check('sizes', (s.ctrlpts_size_u, s.ctrlpts_size_v) == (cu, cv), 'sizes %s x %s' % (s.ctrlpts_size_u, s.ctrlpts_size_v))
    for (a, i) in ((0, 0), (1, su - 1)):
        for (b, j) in ((0, 0), (1, sv - 1)):
            cx.eq('corner[%d][%d]' % (a, b), s.evaluate_single((a, b)), pts[j + sv * i])


def instances(tier):
    out = []
    quick = tier == 'quick'
    for n, dim in ((3, 2), (4, 2), (3, 3)) + (() if quick else ((5, 2), (4, 3))):
        for cent in (False, True):
            out.append(inst('params_curve n%d dim%d %s' % (n, dim, 'centripetal' if cent else 'chord'), h_params_curve, timeout=1200, n=n, dim=dim, centripetal=cent))
    for su, sv in ((2, 3), (3, 2)) + (() if quick else ((3, 3),)):
        for cent in (False, True):
            out.append(inst('params_surface %dx%d %s' % (su, sv, 'centripetal' if cent else 'chord'), h_params_surface, timeout=2400, su=su, sv=sv, centripetal=cent))
    for su, sv, tiny in ((3, 4, ('row', 1)), (4, 3, ('col', 0)), (3, 3, 'all')):
        for cent in (False, True):
            out.append(inst('params_surface %dx%d shrunk %s %s' % (su, sv, tiny, 'centripetal' if cent else 'chord'), h_params_surface_scaled, timeout=1200, su=su, sv=sv, centripetal=cent, tiny=tiny))
    for p, n in ((1, 3), (2, 3), (2, 4), (3, 4), (2, 5), (3, 5)):
        out.append(inst('knot_vector p%d n%d' % (p, n), h_knot_vector, timeout=900, p=p, n=n))
    for p, n, ncp in ((1, 4, 3), (2, 5, 4), (2, 5, 3), (3, 6, 5)):
        out.append(inst('knot_vector2 p%d n%d cp%d' % (p, n, ncp), h_knot_vector, timeout=900, p=p, n=n, ncp=ncp))
    for n, p in ((3, 1), (3, 2), (4, 2), (4, 3)):
        out.append(inst('interpolate_curve symbolic-params n%d p%d' % (n, p), h_interpolate_curve, timeout=2400, n=n, p=p, dim=2, family='symbolic'))
    nmax = 8 if quick else 16
    for famname in ('uniform', 'geometric', 'clustered', 'chordlike'):
        for n, p in ((4, 2), (5, 3), (6, 3), (8, 3), (7, 2)) + (() if quick else ((10, 3), (12, 4), (9, 5), (12, 3), (14, 3), (16, 5), (16, 2), (13, 4))):
            if n <= nmax:
                out.append(inst('interpolate_curve %s n%d p%d' % (famname, n, p), h_interpolate_curve, timeout=1800, n=n, p=p, dim=2 + n % 2, family=famname))
    for su, sv, pu, pv in ((3, 3, 2, 2), (4, 3, 2, 1), (3, 4, 1, 2), (4, 5, 3, 2)) + (() if quick else ((6, 5, 3, 3), (5, 4, 2, 3))):
        for famname in ('uniform', 'chordlike'):
            out.append(inst('interpolate_surface %s %dx%d p%d,%d' % (famname, su, sv, pu, pv), h_interpolate_surface, timeout=2400, su=su, sv=sv, pu=pu, pv=pv, family=famname))
    for su, pu, pv, famname in ((4, 3, 2, 'uniform'), (4, 2, 3, 'chordlike'), (3, 1, 2, 'geometric'), (4, 3, 3, 'clustered')):
        out.append(inst('interpolate_surface %s %dx%d p%d,%d same parameters in u and v' % (famname, su, su, pu, pv), h_interpolate_surface, timeout=2400, su=su, sv=su, pu=pu, pv=pv, family=famname, same_params=True))
    out.append(inst('approximate_curve symbolic-params n4 p1 cp3', h_approximate_curve, timeout=2400, n=4, p=1, ncp=3, dim=2, family='symbolic'))
    for famname in ('uniform', 'chordlike', 'clustered'):
        for n, p, ncp in ((5, 2, 4), (6, 3, 5), (8, 3, 5), (7, 2, 4), (6, 1, 3)) + (() if quick else ((10, 3, 6), (12, 3, 7), (12, 4, 6))):
            out.append(inst('approximate_curve %s n%d p%d cp%d' % (famname, n, p, ncp), h_approximate_curve, timeout=2400, n=n, p=p, ncp=ncp, dim=2, family=famname))
    for su, sv, pu, pv, cu, cv in ((5, 4, 2, 1, 4, 3), (4, 5, 1, 2, 3, 4)) + (() if quick else ((6, 6, 3, 2, 5, 4),)):
        for famname in ('uniform', 'chordlike'):
            out.append(inst('approximate_surface %s %dx%d p%d,%d cp%dx%d' % (famname, su, sv, pu, pv, cu, cv), h_approximate_surface, timeout=2400,
                            su=su, sv=sv, pu=pu, pv=pv, cu=cu, cv=cv, family=famname))
    return out
