"""C08 - degree elevation preserves a Bezier shape and reduction inverts it."""
from fractions import Fraction as F

from .. import geo, oracles
from ..run import inst

PROPERTY = 'C08'
ASSUMPTIONS = ['control polygons are Bezier (degree + 1 points); coordinates (homogeneous or Cartesian) are symbolic reals']
OUTSIDE = ['degrees > 8 (quick) / 14 (thorough)', 'elevation counts > 4']
BOUNDS = {'quick': 'degrees 1..8, num 1..4, points of dimension 2..4 and rows of points (surface case); reduction of exact elevations for every degree 2..9; elevation after earlier calls with other degrees on equally long polygons',
          'thorough': 'degrees 1..10, repeated reductions back to the original degree'}


def h_elevate(cx, p, num, dim=3, rows=0, earlier=False):
    H = geo.M('helpers')
    if earlier:
        # earlier calls in the same process: other degrees on polygons with the SAME number of points and the same `num`
        # (validation switched off, as the library's own callers do), and validated calls of neighbouring degrees
        E = cx.points('E', p + 1, dim)
        for q in sorted({1, max(1, p - 1), max(1, p - 2)}):
            if q < p:
                try:
                    H.degree_elevation(q, E, num=num, check_num=False)
                except Exception:
                    pass          # (what such a call does is not claimed, only that it leaves nothing behind)
        H.degree_elevation(p + 1, cx.points('F', p + 2, dim), num=num)
        if p >= 2:
            H.degree_reduction(p, E)
    if rows:
        # rows of points: a Bezier "curve of rows" (surface / volume use)
        P = [[[cx.real('P%d_%d_%d' % (i, r, d)) for d in range(dim)] for r in range(rows)] for i in range(p + 1)]
        flat = lambda pts, r: [pt[r] for pt in pts]
    else:
        P = cx.points('P', p + 1, dim)
    t = cx.real('t', lo=0, hi=1)
    if rows:
        # the helper is used row-wise by callers: elevate each row polygon
        for r in range(rows):
            Q = H.degree_elevation(p, flat(P, r), num=num)
            cx.check('len[%d]' % r, len(Q) == p + 1 + num)
            cx.eq('same_curve[%d]' % r, oracles.bezier_point(Q, t), oracles.bezier_point(flat(P, r), t))
        return
    Q = H.degree_elevation(p, P, num=num)
    cx.check('len', len(Q) == p + 1 + num, 'len %d' % len(Q))
    cx.eq('first', Q[0], P[0])
    cx.eq('last', Q[-1], P[-1])
    cx.eq('same_curve', oracles.bezier_point(Q, t), oracles.bezier_point(P, t))
    # num elevations == num single elevations
    R = P
    for k in range(num):
        R = H.degree_elevation(p + k, R, num=1)
    cx.eq('stepwise', R, Q)
    cx.eq('input_unmodified', P, cx.points('P', p + 1, dim))


def h_reduce(cx, p, num, dim=2):
    """reduce an exact elevation back, one degree at a time"""
    H = geo.M('helpers')
    P = cx.points('P', p + 1, dim)
    Q = H.degree_elevation(p, P, num=num)
    t = cx.real('t', lo=0, hi=1)
    cur = Q
    for k in range(num):
        deg = p + num - k
        cur = H.degree_reduction(deg, cur)
        cx.check('len[%d]' % k, len(cur) == deg, 'len %d' % len(cur))
        cx.eq('same_curve[%d]' % k, oracles.bezier_point(cur, t), oracles.bezier_point(P, t))
    cx.eq('restored', cur, P)


def h_reject(cx, p):
    H = geo.M('helpers')
    GE = geo.M('exceptions').GeomdlException
    P = cx.points('P', p + 2, 2)       # one point too many: not Bezier
    cx.expect_raises('elevate_non_bezier', GE, H.degree_elevation, p, P)
    cx.expect_raises('elevate_num0', GE, H.degree_elevation, p + 1, P, num=0)
    cx.expect_raises('elevate_num_negative', GE, H.degree_elevation, p + 1, P, num=-1)
    cx.expect_raises('reduce_non_bezier', GE, H.degree_reduction, p + 2, P)
    if p + 1 < 2:
        cx.expect_raises('reduce_degree1', GE, H.degree_reduction, 1, P[:2])


def instances(tier):
    out = []
    quick = tier == 'quick'
    pmax = 8 if quick else 14
    for p in range(1, pmax + 1):
        for num in (1, 2, 3, 4):
            out.append(inst('elevate p%d num%d' % (p, num), h_elevate, p=p, num=num, dim=2 + (p + num) % 3))
        out.append(inst('elevate p%d rows' % p, h_elevate, p=p, num=1 + p % 3, dim=3, rows=2))
        if p >= 2:
            out.append(inst('elevate p%d num%d after other calls' % (p, 1 + p % 2), h_elevate, p=p, num=1 + p % 2, dim=2, earlier=True))
        for num in ((1, 2) if quick else (1, 2, 3, 4)):
            out.append(inst('reduce p%d num%d' % (p, num), h_reduce, p=p, num=num, dim=2 + p % 2))
    for p in (0, 1, 2, 3):
        out.append(inst('reject p%d' % p, h_reject, p=p))
    return out
