"""C20 - planar predicates and spatial queries agree with exact arithmetic."""
from fractions import Fraction as F
from itertools import combinations, permutations, product

from .. import core, families as fam
from .. import geo, shapes, oracles
from ..shapes import spec, spec_name
from ..run import inst

PROPERTY = 'C20'
ASSUMPTIONS = [
    'rays: non-parallel means |d1 x d2| components beyond the 256*eps tolerance; 3-D intersecting / skew pairs are constructed as p2 = p1 + a d1 - b d2 (+ c d1 x d2) with symbolic a, b, c',
    'winding / hull: query points off the polygon boundary; polygons with more than 3 vertices have concrete integer-grid vertices and a symbolic query point',
    'voxels: symbolic boxes have concrete extents (the membership test multiplies coordinates by extents); grids: symbolic bounding box at least 1e-3 wide',
]
OUTSIDE = ['fully symbolic polygons with > 3 vertices (bilinear branch conditions: z3 unknown)', 'voxel grid sizes > 4', 'polygons with > 6 vertices', 'num_procs > 1 beyond the pool model (order-preserving map over copied arguments / results); scheduling and worker-private state are only exercised by the float replay']
BOUNDS = {'quick': '2-D rays symbolic vs grid rays and fully symbolic pairs; 3-D constructed intersecting/skew/parallel pairs; triangles fully symbolic; 12 grid polygons; hull of 3 symbolic / 4-5 mixed points; voxel grids 2..3; find_ctrlpts support on curves p<=3 and surfaces; voxelize with num_procs in {2,3} and a non-default padding (worker-pool model); small rays (symbolic size >= 1e-4); flat plates',
          'thorough': 'more grid polygons (all simple 4-gons on a 3x3 grid), hull with 6 points, voxel grids to 4'}


def _cross2(a, b):
    return a[0] * b[1] - a[1] * b[0]


def _sub(a, b):
    return [x - y for x, y in zip(a, b)]


def _cross3(a, b):
    return [a[1] * b[2] - a[2] * b[1], a[2] * b[0] - a[0] * b[2], a[0] * b[1] - a[1] * b[0]]


def _dot(a, b):
    return sum((x * y for x, y in zip(a[1:], b[1:])), a[0] * b[0])


# ------------------------------------------------------------------------------------------------ rays

def h_ray2d(cx, ray1=None):
    R = geo.M('ray')
    if ray1 is None:
        p1, q1 = cx.reals('p1', 2), cx.reals('q1', 2)
    else:
        p1, q1 = cx.consts(ray1[0]), cx.consts(ray1[1])
    p2, q2 = cx.reals('p2', 2), cx.reals('q2', 2)
    d1, d2 = _sub(q1, p1), _sub(q2, p2)
    cr = _cross2(d1, d2)
    big = F(1, 1000)
    cx.assume(cx.any_of([cr == 0, cr > big, cr < -big]))       # parallel exactly, or clearly not
    r1, r2 = R.Ray(p1, q1), R.Ray(p2, q2)
    t1, t2, status = R.intersect(r1, r2)
    if cx.holds(cr == 0):
        cx.check('parallel=>COLINEAR', status == R.RayIntersection.COLINEAR, 'status %s' % status)
    else:
        cx.check('crossing=>INTERSECT', status == R.RayIntersection.INTERSECT, 'status %s' % status)
        a = [p1[i] + t1 * d1[i] for i in range(2)]
        b = [p2[i] + t2 * d2[i] for i in range(2)]
        cx.eq('points_coincide', a, b)
        cx.eq('eval(t1)', list(r1.eval(t1)), a)
        cx.eq('eval(t2)', list(r2.eval(t2)), b)
        # Cramer: t1 = (p2 - p1) x d2 / (d1 x d2)
        cx.eq('t1', t1, _cross2(_sub(p2, p1), d2) / cr)
        cx.eq('t2', t2, _cross2(_sub(p2, p1), d1) / cr)


def h_ray3d(cx, kind, ray1=None, scaled=None):
    R = geo.M('ray')
    if ray1 is None:
        p1, d1 = cx.reals('p1', 3), cx.reals('d1', 3)
    else:
        p1, d1 = cx.consts(ray1[0]), cx.consts(ray1[1])
    d2 = cx.reals('d2', 3)
    if scaled is not None:
        # small geometry: fixed directions times ONE symbolic size sc >= 1e-4 (the routine's own tolerance, 5.7e-14 on
        # the cross product, is a design decision and limits the claim to sizes above about 1e-6)
        sc = cx.real('sc', lo=F(1, 10000))
        p1, d1 = [sc * x for x in p1], [sc * x for x in d1]
        d2 = [sc * x for x in cx.consts(scaled)]
    a, b = cx.real('a'), cx.real('b')
    n = _cross3(d1, d2)
    nn = _dot(n, n)
    if kind == 'parallel':
        k = cx.real('k')
        d2 = [k * x for x in d1]
        off = cx.reals('o', 3)
        p2 = [p1[i] + off[i] for i in range(3)]
    else:
        if scaled is None:
            cx.assume(nn >= F(1, 100))
        p2 = [p1[i] + a * d1[i] - b * d2[i] for i in range(3)]
        if kind == 'skew':
            c = cx.real('c')
            if scaled is None:
                cx.assume(c * c * nn >= F(1, 10000))
            else:
                cx.assume(cx.any_of([c >= F(1, 10), c <= F(-1, 10)]))
            p2 = [p2[i] + c * n[i] for i in range(3)]
    q1 = [p1[i] + d1[i] for i in range(3)]
    q2 = [p2[i] + d2[i] for i in range(3)]
    r1, r2 = R.Ray(p1, q1), R.Ray(p2, q2)
    t1, t2, status = R.intersect(r1, r2)
    if kind == 'parallel':
        cx.check('parallel=>COLINEAR', status == R.RayIntersection.COLINEAR, 'status %s' % status)
    elif kind == 'intersect':
        cx.check('coplanar=>INTERSECT', status == R.RayIntersection.INTERSECT, 'status %s' % status)
        cx.eq('t1', t1, a)
        cx.eq('t2', t2, b)
        cx.eq('points_coincide', list(r1.eval(t1)), list(r2.eval(t2)))
    else:
        cx.check('skew=>SKEW', status == R.RayIntersection.SKEW, 'status %s' % status)
        # the reported parameters are those of closest approach
        cx.eq('t1', t1, a)
        cx.eq('t2', t2, b)


# ------------------------------------------------------------------------------------------------ orientation / winding

def h_is_left(cx):
    L = geo.M('linalg')
    p0, p1, p2 = cx.reals('a', 2), cx.reals('b', 2), cx.reals('c', 2)
    det = (p1[0] - p0[0]) * (p2[1] - p0[1]) - (p2[0] - p0[0]) * (p1[1] - p0[1])
    cx.eq('is_left==det', L.is_left(p0, p1, p2), det)
    cx.eq('antisymmetric', L.is_left(p1, p0, p2), -det)
    cx.eq('cyclic', L.is_left(p1, p2, p0), det)


def _crossing_oracle(cx, q, poly):
    """even-odd rule by counting edge crossings of the horizontal ray to the right (q off the boundary)"""
    inside = False
    n = len(poly)
    for i in range(n):
        a, b = poly[i], poly[(i + 1) % n]
        if cx.holds(a[1] <= q[1]) != cx.holds(b[1] <= q[1]):
            # x coordinate of the edge at height q.y, compared without division
            lhs = (b[0] - a[0]) * (q[1] - a[1])
            rhs = (q[0] - a[0]) * (b[1] - a[1])
            if cx.holds(b[1] > a[1]):
                right = cx.holds(lhs > rhs)
            else:
                right = cx.holds(lhs < rhs)
            if right:
                inside = not inside
    return inside


def h_wn_triangle(cx):
    L = geo.M('linalg')
    A, B, C = cx.reals('A', 2), cx.reals('B', 2), cx.reals('C', 2)
    q = cx.reals('q', 2)
    o = [L.is_left(A, B, q), L.is_left(B, C, q), L.is_left(C, A, q)]
    det = (B[0] - A[0]) * (C[1] - A[1]) - (C[0] - A[0]) * (B[1] - A[1])
    cx.assume(det != 0)
    for x in o:
        cx.assume(x != 0)                       # q off the boundary lines
    res = L.wn_poly(q, [A, B, C, A])
    pos = all(cx.holds(x > 0) for x in o)
    neg = all(cx.holds(x < 0) for x in o)
    cx.check('wn==inside', bool(res) == (pos or neg), 'wn_poly %s, orientation signs inside=%s' % (res, pos or neg))


def _on_boundary_excluded(cx, q, poly):
    n = len(poly)
    for i in range(n):
        a, b = poly[i], poly[(i + 1) % n]
        det = (b[0] - a[0]) * (q[1] - a[1]) - (q[0] - a[0]) * (b[1] - a[1])
        # q not on the closed segment ab
        dot = (q[0] - a[0]) * (b[0] - a[0]) + (q[1] - a[1]) * (b[1] - a[1])
        len2 = (b[0] - a[0]) ** 2 + (b[1] - a[1]) ** 2
        cx.assume(cx.any_of([det != 0, dot < 0, dot > len2]))


def h_wn_grid(cx, poly, closed=True):
    L = geo.M('linalg')
    V = [cx.consts(p) for p in poly]
    xs = [p[0] for p in poly]
    ys = [p[1] for p in poly]
    q = [cx.real('qx', lo=min(xs) - 1, hi=max(xs) + 1), cx.real('qy', lo=min(ys) - 1, hi=max(ys) + 1)]
    _on_boundary_excluded(cx, q, V)
    res = L.wn_poly(q, V + [V[0]])
    exp = _crossing_oracle(cx, q, V)
    cx.check('wn==crossing_number', bool(res) == exp, 'wn_poly %s vs even-odd %s' % (res, exp))


def h_hull(cx, pts, nsym):
    """convex_hull: output is a subsequence of the input, counter-clockwise, every input point left of / on every hull edge"""
    L = geo.M('linalg')
    P = [cx.consts(p) for p in pts]
    for k in range(nsym):
        P.append(cx.reals('S%d_' % k, 2))
    # general position: no two points equal, no three collinear (off-boundary reading of the property)
    for a, b in combinations(range(len(P)), 2):
        cx.assume(cx.any_of([P[a][0] != P[b][0], P[a][1] != P[b][1]]))
    for a, b, c in combinations(range(len(P)), 3):
        if a >= len(pts) or b >= len(pts) or c >= len(pts):
            cx.assume(L.is_left(P[a], P[b], P[c]) != 0)
        elif L.is_left(P[a], P[b], P[c]) == 0:
            cx.assume(False)
    hull = L.convex_hull([list(p) for p in P])
    cx.check('hull_size', 3 <= len(hull) <= len(P), 'hull has %d points' % len(hull))
    idxs = []
    for h in hull:
        found = [i for i, p in enumerate(P) if cx.holds(p[0] == h[0]) and cx.holds(p[1] == h[1])]
        cx.check('hull_point_is_input', len(found) == 1)
        idxs.append(found[0] if found else -1)
    cx.check('no_repeats', len(set(idxs)) == len(idxs))
    m = len(hull)
    for i in range(m):
        a, b, c = hull[i], hull[(i + 1) % m], hull[(i + 2) % m]
        cx.check('ccw_turn[%d]' % i, cx.holds(L.is_left(a, b, c) > 0))
        for j, p in enumerate(P):
            cx.check('all_left[%d][%d]' % (i, j), cx.holds(L.is_left(a, b, p) >= 0))


# ------------------------------------------------------------------------------------------------ voxels

def h_point_in_voxel(cx, npts):
    V = geo.M('_voxelize')
    lo = cx.reals('m', 3)
    ext = [F(1), F(2), F(1, 2)]
    hi = [lo[i] + cx.const(ext[i]) for i in range(3)]
    pts = [cx.reals('p%d_' % k, 3) for k in range(npts)]
    tol = F(10e-8)             # documented padding (the double 10e-8, exactly): box inflated by tol, upper bound exclusive
    res = V.is_point_inside_voxel([list(lo), list(hi)], [list(p) for p in pts])
    inside = [all(cx.holds(lo[i] - tol <= p[i]) and cx.holds(p[i] < hi[i] + tol) for i in range(3)) for p in pts]
    cx.check('inside==box_membership', bool(res) == any(inside), 'is_point_inside_voxel %s, oracle %s' % (res, inside))
    got = V.get_points_inside_voxel([list(lo), list(hi)], [list(p) for p in pts])
    cx.check('get_points_count', len(got) == sum(inside))
    filled = V.find_inouts_st([[list(lo), list(hi)], [[x + 10 for x in lo], [x + 10 for x in hi]]], [list(p) for p in pts])
    cx.check('find_inouts_first', filled[0] == (1 if any(inside) else 0))


def h_voxel_grid(cx, sz, use_cubes=False):
    V = geo.M('_voxelize')
    lo = cx.reals('m', 3)
    hi = []
    for i in range(3):
        w = cx.real('e%d' % i, lo=F(1, 1000))
        hi.append(lo[i] + w)
    grid = V.generate_voxel_grid([list(lo), list(hi)], sz, use_cubes=use_cubes)
    if use_cubes:
        cx.check('cells_exist', len(grid) >= 1)
        e = grid[0][1][0] - grid[0][0][0]
        for k, cell in enumerate(grid):
            for i in range(3):
                cx.eq('cube[%d][%d]' % (k, i), cell[1][i] - cell[0][i], e)
        cx.eq('first_min', grid[0][0], lo)
        return
    cx.check('cell_count', len(grid) == sz[0] * sz[1] * sz[2], '%d cells' % len(grid))
    steps = [(hi[i] - lo[i]) / (sz[i] - 1) for i in range(3)]
    k = 0
    for a in range(sz[0]):
        for b in range(sz[1]):
            for c in range(sz[2]):
                if k >= len(grid):
                    break
                idx = (a, b, c)
                exp_min = [lo[i] + steps[i] * idx[i] for i in range(3)]
                cx.eq('cell_min[%d]' % k, grid[k][0], exp_min)
                cx.eq('cell_max[%d]' % k, grid[k][1], [exp_min[i] + steps[i] for i in range(3)])
                k += 1
    # coverage: first cell starts at the bbox minimum, the last one reaches beyond the bbox maximum
    cx.eq('first_min', grid[0][0], lo)
    for i in range(3):
        cx.ge('last_max_covers[%d]' % i, grid[-1][1][i], hi[i])


def h_voxelize(cx, sz, num_procs=1, tol=None, flat=False):
    """voxelize a bilinear patch with one symbolic corner height: filled[i] == 1 <=> a sampled point lies in cell i"""
    VX = geo.M('voxelize')
    B = geo.M('BSpline')
    z = cx.real('z', lo=F(1, 10), hi=F(9, 10))
    s = B.Surface()
    s.degree_u, s.degree_v = 1, 1
    if flat:
        # a plate in the plane z = const: the bounding box has no extent along one axis
        s.set_ctrlpts([[0, 0, z], [0, 1, z], [1, 0, z], [1, 1, z]], 2, 2)
    else:
        s.set_ctrlpts([[0, 0, 0], [0, 1, 0], [1, 0, 1], [1, 1, z]], 2, 2)
    s.knotvector_u = [0, 0, 1, 1]
    s.knotvector_v = [0, 0, 1, 1]
    s.sample_size = 3
    kw = {}
    if num_procs != 1:
        kw['num_procs'] = num_procs
    if tol is not None:
        kw['tol'] = cx.const(tol)        # padding of every voxel (default 10e-8)
    grid, filled = VX.voxelize(s, grid_size=sz, **kw)
    if flat:
        cx.check('flat_grid_nonempty', len(grid) == len(filled) and len(grid) >= sz[0] * sz[1], '%d cells, %d flags' % (len(grid), len(filled)))
        cx.check('flat_some_filled', any(filled), 'no voxel filled')
    else:
        cx.check('sizes', len(grid) == len(filled) == sz[0] * sz[1] * sz[2], '%d cells, %d flags' % (len(grid), len(filled)))
    if len(grid) != len(filled):
        return
    pts = s.evalpts
    tol = F(10e-8) if tol is None else F(tol)
    for k, cell in enumerate(grid):
        inside = any(all(cx.holds(cell[0][i] - tol <= p[i]) and cx.holds(p[i] < cell[1][i] + tol) for i in range(3)) for p in pts)
        cx.check('filled[%d]' % k, filled[k] == (1 if inside else 0), 'filled %s oracle %s' % (filled[k], inside))


# ------------------------------------------------------------------------------------------------ find_ctrlpts

def h_find_ctrlpts(cx, sp):
    ops = geo.M('operations')
    obj, info = shapes.build(cx, sp)
    degs, sizes, Ks, P = sp['degs'], info['sizes'], info['K'], info['P']
    prm = shapes.sym_params(cx, obj)
    for d in range(len(degs)):
        cx.snap(prm[d], Ks[d])
    if obj.pdimension == 1:
        got = ops.find_ctrlpts(obj, prm[0])
        N = oracles.all_basis_def(degs[0], Ks[0], prm[0], cx)
        k = oracles.span_of(degs[0], Ks[0], prm[0], cx)
        cx.check('count', len(got) == degs[0] + 1)
        cx.eq('points', [list(p) for p in got], [P[i] for i in range(k - degs[0], k + 1)])
        for i in range(sizes[0]):
            if not (k - degs[0] <= i <= k):
                cx.eq('not_returned_vanishes[%d]' % i, N[i], 0)
        tot = 0
        for i in range(k - degs[0], k + 1):
            tot = tot + N[i]
        cx.eq('returned_carry_all_weight', tot, 1)
        return
    got = ops.find_ctrlpts(obj, prm[0], prm[1])
    Nu = oracles.all_basis_def(degs[0], Ks[0], prm[0], cx)
    Nv = oracles.all_basis_def(degs[1], Ks[1], prm[1], cx)
    ku = oracles.span_of(degs[0], Ks[0], prm[0], cx)
    kv = oracles.span_of(degs[1], Ks[1], prm[1], cx)
    cx.check('shape', len(got) == degs[0] + 1 and all(len(r) == degs[1] + 1 for r in got))
    for a in range(degs[0] + 1):
        for b in range(degs[1] + 1):
            cx.eq('points[%d][%d]' % (a, b), list(got[a][b]), P[(kv - degs[1] + b) + sizes[1] * (ku - degs[0] + a)])
    for i in range(sizes[0]):
        for j in range(sizes[1]):
            if not (ku - degs[0] <= i <= ku and kv - degs[1] <= j <= kv):
                cx.eq('not_returned_vanishes[%d][%d]' % (i, j), Nu[i] * Nv[j], 0)


# ------------------------------------------------------------------------------------------------ families

def _simple_polygons(quick):
    polys = [
        [(0, 0), (3, 0), (3, 3), (0, 3)], [(0, 3), (3, 3), (3, 0), (0, 0)],                  # square ccw / cw
        [(0, 0), (2, 0), (1, 2)], [(1, 2), (2, 0), (0, 0)],                                    # triangles
        [(1, 0), (2, 1), (1, 2), (0, 1)], [(0, 1), (1, 2), (2, 1), (1, 0)],                  # diamond ccw / cw
        [(0, 0), (3, 0), (3, 3), (2, 1)], [(0, 0), (3, 0), (1, 1), (0, 3)],                  # non-convex quads (arrow / dart)
        [(0, 0), (2, 0), (2, 1), (1, 1), (1, 2), (0, 2)],                                      # L shape
        [(0, 0), (3, 0), (3, 3), (2, 3), (2, 1), (1, 1), (1, 3), (0, 3)][:6] and [(0, 0), (3, 0), (3, 2), (2, 1), (1, 2), (0, 2)],   # crown
        [(0, 0), (1, 1), (2, 0), (2, 2), (1, 3), (0, 2)],                                      # notched hexagon
        [(0, 2), (1, 3), (2, 2), (2, 0), (1, 1), (0, 0)],                                      # same, clockwise start
    ]
    if not quick:
        pts = [(x, y) for x in range(3) for y in range(3)]
        seen = set()
        for quad in permutations(pts, 4):
            if quad[0] != min(quad):
                continue
            key = tuple(quad)
            if key in seen:
                continue
            if _is_simple(quad):
                seen.add(key)
        polys += [list(q) for q in sorted(seen)][::3][:120]
    return polys


def _orient(a, b, c):
    return (b[0] - a[0]) * (c[1] - a[1]) - (c[0] - a[0]) * (b[1] - a[1])


def _seg_inter(a, b, c, d):
    o1, o2, o3, o4 = _orient(a, b, c), _orient(a, b, d), _orient(c, d, a), _orient(c, d, b)
    if o1 * o2 < 0 and o3 * o4 < 0:
        return True

    def on(p, q, r):
        return _orient(p, q, r) == 0 and min(p[0], q[0]) <= r[0] <= max(p[0], q[0]) and min(p[1], q[1]) <= r[1] <= max(p[1], q[1])
    return on(a, b, c) or on(a, b, d) or on(c, d, a) or on(c, d, b)


def _is_simple(poly):
    n = len(poly)
    area = sum(poly[i][0] * poly[(i + 1) % n][1] - poly[(i + 1) % n][0] * poly[i][1] for i in range(n))
    if area == 0:
        return False
    for i in range(n):
        if _orient(poly[i - 1], poly[i], poly[(i + 1) % n]) == 0:
            return False
        for j in range(i + 1, n):
            if j == i or (j + 1) % n == i or (i + 1) % n == j:
                continue
            if _seg_inter(poly[i], poly[(i + 1) % n], poly[j], poly[(j + 1) % n]):
                return False
    return True


def instances(tier):
    out = []
    quick = tier == 'quick'
    grid_rays = [((0, 0), (1, 0)), ((0, 0), (0, 1)), ((1, 2), (3, 3)), ((2, 1), (2, -1)), ((0, 1), (-2, 0))]
    for r in grid_rays:
        out.append(inst('ray2d grid%s-%s vs symbolic' % r, h_ray2d, timeout=900, ray1=r))
    out.append(inst('ray2d both symbolic', h_ray2d, timeout=1800))
    rays3 = [((0, 0, 0), (1, 0, 0)), ((1, 2, 3), (0, 1, 1)), ((0, 1, 0), (0, 0, 2)), ((1, 1, 1), (1, 2, 3))]
    for kind in ('intersect', 'skew', 'parallel'):
        for r in rays3[: (2 if quick and kind != 'intersect' else 4)]:
            out.append(inst('ray3d %s p%s d%s' % (kind, r[0], r[1]), h_ray3d, timeout=1800, kind=kind, ray1=r))
    for kind in ('intersect', 'skew'):
        out.append(inst('ray3d %s small geometry (symbolic size)' % kind, h_ray3d, timeout=1800, kind=kind, ray1=((1, 2, 3), (0, 1, 1)), scaled=(1, 0, 2)))
    out.append(inst('is_left', h_is_left))
    out.append(inst('wn_poly symbolic triangle', h_wn_triangle, timeout=1800))
    for i, poly in enumerate(_simple_polygons(quick)):
        if not _is_simple(poly):
            continue
        out.append(inst('wn_poly grid polygon #%d %s' % (i, ''.join('%d%d' % p for p in poly)), h_wn_grid, timeout=1800, poly=poly))
    out.append(inst('convex_hull 3 symbolic', h_hull, timeout=1800, pts=[], nsym=3))
    hull_sets = [[(0, 0), (3, 0), (0, 3)], [(0, 0), (3, 1), (2, 3), (-1, 2)], [(0, 0), (4, 0), (4, 3), (1, 4)]]
    for pts in hull_sets:
        out.append(inst('convex_hull %s + 1 symbolic' % (''.join('(%d,%d)' % p for p in pts)), h_hull, timeout=2400, pts=pts, nsym=1))
    if not quick:
        out.append(inst('convex_hull 5 grid + 1 symbolic', h_hull, timeout=3600, pts=[(0, 0), (4, 1), (5, 4), (2, 6), (-1, 3)], nsym=1))
        out.append(inst('convex_hull 2 grid + 2 symbolic', h_hull, timeout=3600, pts=[(0, 0), (4, 1)], nsym=2))
    for n in (1, 2):
        out.append(inst('point_in_voxel %d points' % n, h_point_in_voxel, timeout=1800, npts=n))
    for sz in ([(2, 2, 2), (2, 3, 2), (3, 2, 3)] + ([] if quick else [(4, 3, 2), (3, 3, 3)])):
        out.append(inst('voxel_grid %s' % (sz,), h_voxel_grid, timeout=1800, sz=sz))
    out.append(inst('voxelize bilinear patch (2,2,2)', h_voxelize, timeout=1800, sz=(2, 2, 2)))
    if not quick:
        out.append(inst('voxelize bilinear patch (3,2,2)', h_voxelize, timeout=3600, sz=(3, 2, 2)))
    out.append(inst('voxelize flat plate (2,2,2)', h_voxelize, timeout=1800, sz=(2, 2, 2), flat=True))
    out.append(inst('voxelize flat plate (3,2,2) num_procs=2', h_voxelize, timeout=1800, sz=(3, 2, 2), flat=True, num_procs=2))
    # worker pools (model: order-preserving map over copies, see core.SerialPool; the float replay uses real processes)
    for np_ in ((2, 3) if quick else (2, 3, 4, 8)):
        out.append(inst('voxelize bilinear patch (2,2,2) num_procs=%d' % np_, h_voxelize, timeout=1800, sz=(2, 2, 2), num_procs=np_))
    for np_ in (1, 2):
        out.append(inst('voxelize bilinear patch (2,2,2) padding 1/4 num_procs=%d' % np_, h_voxelize, timeout=1800, sz=(2, 2, 2), num_procs=np_, tol=F(1, 4)))
    if not quick:
        for np_ in (2, 8):
            out.append(inst('voxelize bilinear patch (3,2,2) num_procs=%d' % np_, h_voxelize, timeout=3600, sz=(3, 2, 2), num_procs=np_))
    for p in (1, 2, 3):
        for m in ((), (1,), (p,), (1, 1)):
            sp = spec('curve', (p,), (m,), rational=(p == 2))
            nm = '%s find_ctrlpts' % spec_name(sp)
            if not any(i.name == nm for i in out):
                out.append(inst(nm, h_find_ctrlpts, timeout=900, sp=sp))
    for degs, ms in [((1, 2), ((1,), (1,))), ((2, 1), ((1, 1), ())), ((2, 2), ((), (1, 2))), ((1, 1), ((1, 1), (1,)))]:
        sp = spec('surface', degs, ms, rational=False)
        out.append(inst('%s find_ctrlpts' % spec_name(sp), h_find_ctrlpts, timeout=1800, sp=sp))
    return out
