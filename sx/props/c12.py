"""C12 - no stale derived state after any sequence of edits (bounded histories), deep copies independent."""
import copy
from fractions import Fraction as F

from .. import families as fam
from .. import geo, shapes
from ..shapes import spec, spec_name
from ..run import inst

PROPERTY = 'C12'
ASSUMPTIONS = [
    'histories: read-all ; mutate ; read-all (quick) and read ; m1 ; read ; m2 ; read (thorough); the reference is a FRESH object '
    'built through the public setters from the definition (degrees, knot vectors, primary control net, delta) read after the history',
    'mutator parameters (new control points, weights, inserted knot, translation vector, scale factor) are symbolic',
]
OUTSIDE = ['histories longer than 4 operations', 'shapes larger than curve p2/4 points, surface (1,2) 2x3, volume (1,1,1)', 'visualisation components']
BOUNDS = {'quick': 'all single mutators x {BSpline,NURBS} x {curve,surface} + NURBS volume; deep-copy independence; containers; rejected assignments; surface containers: add / edit / batch add / re-tessellation / deep copy with tessellation; knot read-modify-write through the caller list; partly rejected two-direction insert / remove',
          'thorough': 'all ordered pairs of a mutator subset'}


# ---------------------------------------------------------------------------------------------- views

def views(obj, tess=True):
    v = {}
    pd = obj.pdimension
    v['degree'] = shapes.degrees(obj)
    v['knotvector'] = shapes.knotvectors(obj)
    v['sizes'] = shapes.sizes(obj)
    v['ctrlpts'] = [list(p) for p in obj.ctrlpts]
    if obj.rational:
        v['weights'] = list(obj.weights)
        v['ctrlptsw'] = [list(p) for p in obj.ctrlptsw]
    if pd == 2:
        v['ctrlpts2d'] = [[list(p) for p in row] for row in obj.ctrlpts2d]
    v['sample_size'] = obj.sample_size if pd == 1 else list(obj.sample_size)
    v['evalpts'] = [list(p) for p in obj.evalpts]
    if pd == 2 and tess:
        obj.tessellate()
        v['vertices'] = [list(x.data) for x in obj.vertices]
        v['vertex_uv'] = [list(x.uv) for x in obj.vertices]
        v['faces'] = [[vx.id for vx in f.vertices] for f in obj.faces]
    return v


def fresh(obj):
    """a freshly built object with the same definition"""
    pd = obj.pdimension
    cls = type(obj)
    f = cls()
    net = shapes.net(obj)
    if pd == 1:
        f.degree = obj.degree
        f.set_ctrlpts(net)
        f.knotvector = list(obj.knotvector)
        f.delta = obj.delta
    elif pd == 2:
        f.degree_u, f.degree_v = obj.degree_u, obj.degree_v
        f.set_ctrlpts(net, obj.ctrlpts_size_u, obj.ctrlpts_size_v)
        f.knotvector_u, f.knotvector_v = list(obj.knotvector_u), list(obj.knotvector_v)
        f.delta_u, f.delta_v = obj.delta_u, obj.delta_v
    else:
        f.degree_u, f.degree_v, f.degree_w = obj.degree_u, obj.degree_v, obj.degree_w
        f.set_ctrlpts(net, obj.ctrlpts_size_u, obj.ctrlpts_size_v, obj.ctrlpts_size_w)
        f.knotvector_u, f.knotvector_v, f.knotvector_w = list(obj.knotvector_u), list(obj.knotvector_v), list(obj.knotvector_w)
        f.delta_u, f.delta_v, f.delta_w = obj.delta_u, obj.delta_v, obj.delta_w
    return f


def compare(cx, name, a, b):
    if set(a) != set(b):
        cx.fail(name + '.views', 'view sets differ')
        return
    for k in a:
        cx.eq('%s.%s' % (name, k), a[k], b[k])


# ---------------------------------------------------------------------------------------------- mutators

def _npts(obj):
    n = 1
    for s in shapes.sizes(obj):
        n *= s
    return n


def m_ctrlpts(cx, obj, tag):
    Q = cx.points('Q' + tag, _npts(obj), obj.dimension)
    if obj.pdimension == 1:
        obj.ctrlpts = Q
    else:
        obj.set_ctrlpts([list(q) + ([1] if obj.rational else []) for q in Q], *shapes.sizes(obj)) if obj.rational else obj.set_ctrlpts(Q, *shapes.sizes(obj))


def m_ctrlpts_prop(cx, obj, tag):
    """the ctrlpts property setter (for NURBS: keeps the weights)"""
    Q = cx.points('Q' + tag, _npts(obj), obj.dimension)
    obj.ctrlpts = Q


def m_weights(cx, obj, tag):
    V = cx.reals('V' + tag, _npts(obj), positive=True)
    obj.weights = V


def m_ctrlptsw(cx, obj, tag):
    Q = cx.points('Q' + tag, _npts(obj), obj.dimension)
    V = cx.reals('V' + tag, _npts(obj), positive=True)
    obj.ctrlptsw = [[x * w for x in q] + [w] for q, w in zip(Q, V)]


def m_one_point(cx, obj, tag):
    """replace the net by a copy with one point moved (read-modify-write through the public views)"""
    d = cx.real('d' + tag)
    pts = [list(p) for p in obj.ctrlpts]
    pts[1][0] = pts[1][0] + d
    obj.ctrlpts = pts


def m_edit_getter_list(cx, obj, tag):
    """read-modify-write on the list handed out by the getter itself (no copy)"""
    d = cx.real('d' + tag)
    pts = obj.ctrlpts
    new_pt = list(pts[1])
    new_pt[0] = new_pt[0] + d + 1
    pts[1] = new_pt
    obj.ctrlpts = pts


def m_edit_getter_listw(cx, obj, tag):
    d = cx.real('d' + tag)
    pts = obj.ctrlptsw
    new_pt = list(pts[2])
    new_pt[0] = new_pt[0] + d + 1
    pts[2] = new_pt
    obj.ctrlptsw = pts


def m_knotvector(cx, obj, tag):
    if obj.pdimension == 1:
        kv = list(obj.knotvector)
        p = obj.degree
        if len(kv) > 2 * (p + 1):
            kv[p + 1] = (kv[p] + kv[p + 1]) / 2
            obj.knotvector = kv
        else:
            obj.knotvector = kv
    else:
        kv = list(obj.knotvector_u)
        obj.knotvector_u = kv
        kv = list(obj.knotvector_v)
        p = obj.degree_v
        if len(kv) > 2 * (p + 1):
            kv[p + 1] = (kv[p] + kv[p + 1]) / 2
        obj.knotvector_v = kv


def m_sample_size(cx, obj, tag):
    if obj.pdimension == 1:
        obj.sample_size = 4
    elif obj.pdimension == 2:
        obj.sample_size_u = 2
        obj.sample_size_v = 4
    else:
        obj.sample_size = 3


def m_ss_v_eq_u(cx, obj, tag):
    """density edit whose new value coincides with the density of another direction"""
    if obj.pdimension == 2:
        obj.sample_size_v = obj.sample_size_u
    else:
        obj.sample_size_w = obj.sample_size_u


def m_ss_u_eq_v(cx, obj, tag):
    obj.sample_size_u = obj.sample_size_v


def m_delta_scalar_eq(cx, obj, tag):
    obj.delta = obj.delta_u


def m_delta(cx, obj, tag):
    if obj.pdimension == 1:
        obj.delta = 0.5
    else:
        obj.delta = 0.5


def _inside(cx, name, kv, p):
    x = cx.real(name, param=True)
    cx.assume(x > kv[p], check=False)
    cx.assume(x < kv[len(kv) - p - 1], check=False)
    cx.snap(x, kv)
    if shapes.multiplicity(cx, x, kv) >= p:
        cx.assume(False)
    return x


def m_insert(cx, obj, tag):
    if obj.pdimension == 1:
        obj.insert_knot(_inside(cx, 'x' + tag, list(obj.knotvector), obj.degree))
    elif obj.pdimension == 2:
        obj.insert_knot(v=_inside(cx, 'x' + tag, list(obj.knotvector_v), obj.degree_v))
    else:
        obj.insert_knot(w=_inside(cx, 'x' + tag, list(obj.knotvector_w), obj.degree_w))


def m_insert_u(cx, obj, tag):
    obj.insert_knot(u=_inside(cx, 'x' + tag, list(obj.knotvector_u), obj.degree_u))


def m_insert_ops(cx, obj, tag):
    ops = geo.M('operations')
    kvs, degs = shapes.knotvectors(obj), shapes.degrees(obj)
    xs = [None] * obj.pdimension
    nums = [0] * obj.pdimension
    d = obj.pdimension - 1
    xs[d] = _inside(cx, 'x' + tag, kvs[d], degs[d])
    nums[d] = 1
    ops.insert_knot(obj, xs, nums)


def m_remove(cx, obj, tag):
    """insert a knot (symbolic position) and remove it again (an exactly removable knot)"""
    ops = geo.M('operations')
    kvs, degs = shapes.knotvectors(obj), shapes.degrees(obj)
    d = obj.pdimension - 1
    x = _inside(cx, 'x' + tag, kvs[d], degs[d])
    xs = [None] * obj.pdimension
    nums = [0] * obj.pdimension
    xs[d], nums[d] = x, 1
    ops.insert_knot(obj, xs, nums)
    views(obj, tess=False)
    if obj.pdimension == 1:
        obj.remove_knot(x)
    else:
        obj.remove_knot(**{shapes.DIRS[d]: x})


def m_refine(cx, obj, tag):
    ops = geo.M('operations')
    dens = [0] * obj.pdimension
    dens[-1] = 1
    ops.refine_knotvector(obj, dens)


def m_reverse(cx, obj, tag):
    obj.reverse()


def m_transpose(cx, obj, tag):
    obj.transpose()


def m_transpose_ops(cx, obj, tag):
    geo.M('operations').transpose(obj, inplace=True)


def m_flip(cx, obj, tag):
    geo.M('operations').flip(obj, inplace=True)


def m_translate(cx, obj, tag):
    vec = cx.reals('t' + tag, obj.dimension)
    geo.M('operations').translate(obj, vec, inplace=True)


def m_scale(cx, obj, tag):
    k = cx.real('k' + tag)
    geo.M('operations').scale(obj, k, inplace=True)


def m_ctrlpts2d(cx, obj, tag):
    Q = cx.points('Q' + tag, _npts(obj), obj.dimension + (1 if obj.rational else 0))
    su, sv = shapes.sizes(obj)
    if obj.rational:
        for q in Q:
            cx.assume(q[-1] > 0, check=False)
    obj.ctrlpts2d = [[Q[j + sv * i] for j in range(sv)] for i in range(su)]


def m_redefine(cx, obj, tag):
    """degree raised by one with a matching Bezier knot vector and a new net"""
    if obj.pdimension != 1:
        cx.assume(False)
    p = 3
    Q = cx.points('Q' + tag, 4, obj.dimension)
    obj.degree = p
    if obj.rational:
        obj.ctrlptsw = [list(q) + [1] for q in Q]
    else:
        obj.ctrlpts = Q
    obj.knotvector = [0, 0, 0, 0, 1, 1, 1, 1]


MUTATORS = {
    'set_ctrlpts': (m_ctrlpts, (1, 2, 3), None),
    'ctrlpts=': (m_ctrlpts_prop, (1, 2, 3), None),
    'weights=': (m_weights, (1, 2, 3), True),
    'ctrlptsw=': (m_ctrlptsw, (1, 2, 3), True),
    'move_one_point': (m_one_point, (1, 2, 3), None),
    'edit_list_from_getter': (m_edit_getter_list, (1, 2, 3), None),
    'edit_ctrlptsw_list_from_getter': (m_edit_getter_listw, (1, 2, 3), True),
    'knotvector=': (m_knotvector, (1, 2), None),
    'sample_size=': (m_sample_size, (1, 2, 3), None),
    'delta=': (m_delta, (1, 2, 3), None),
    'sample_size_v=sample_size_u': (m_ss_v_eq_u, (2, 3), None),
    'sample_size_u=sample_size_v': (m_ss_u_eq_v, (2, 3), None),
    'delta=delta_u': (m_delta_scalar_eq, (2, 3), None),
    'insert_knot': (m_insert, (1, 2, 3), None),
    'insert_knot_u': (m_insert_u, (2,), None),
    'operations.insert_knot': (m_insert_ops, (1, 2), None),
    'remove_knot': (m_remove, (1, 2), None),
    'refine_knotvector': (m_refine, (1, 2), None),
    'reverse': (m_reverse, (1,), None),
    'transpose': (m_transpose, (2,), None),
    'operations.transpose': (m_transpose_ops, (2,), None),
    'flip': (m_flip, (2,), None),
    'translate_inplace': (m_translate, (1, 2, 3), None),
    'scale_inplace': (m_scale, (1, 2, 3), None),
    'ctrlpts2d=': (m_ctrlpts2d, (2,), None),
    'redefine_degree': (m_redefine, (1,), None),
}


def applicable(name, sp):
    fn, pds, rat = MUTATORS[name]
    pd = {'curve': 1, 'surface': 2, 'volume': 3}[sp['kind']]
    if pd not in pds:
        return False
    if rat is True and not sp['rational']:
        return False
    return True


def _build(cx, sp):
    obj, info = shapes.build(cx, sp, normalize_kv=True)
    if obj.pdimension == 1:
        obj.sample_size = 3
    elif obj.pdimension == 2:
        obj.sample_size_u, obj.sample_size_v = 3, 2
    else:
        obj.sample_size_u, obj.sample_size_v, obj.sample_size_w = 2, 3, 4
    return obj


def h_history(cx, sp, muts):
    obj = _build(cx, sp)
    views(obj)                       # populate every cache
    for i, m in enumerate(muts):
        MUTATORS[m][0](cx, obj, str(i))
        got = views(obj)
        ref = views(fresh(obj))
        compare(cx, 'after_%d_%s' % (i, m), got, ref)


def h_rejected(cx, sp):
    """assignments that the object rejects (wrong length / count / invalid knot vector) leave every view as it was,
    also when a later valid edit follows"""
    obj = _build(cx, sp)
    before = views(obj)
    pd = obj.pdimension
    n = _npts(obj)
    tries = []
    if pd == 1:
        tries.append(lambda: setattr(obj, 'knotvector', list(obj.knotvector)[:-1]))
        tries.append(lambda: setattr(obj, 'knotvector', list(reversed(obj.knotvector))))
        tries.append(lambda: setattr(obj, 'ctrlpts', cx.points('X', obj.degree, obj.dimension)))          # fewer than degree + 1
    else:
        tries.append(lambda: setattr(obj, 'knotvector_u', list(obj.knotvector_u)[:-1]))
        tries.append(lambda: setattr(obj, 'knotvector_v', list(reversed(obj.knotvector_v))))
        # (a control-point list whose length does not match the sizes is NOT validated by surfaces / volumes: it fails
        #  half-way with an IndexError and leaves the object unusable - not an edit the property speaks about, not used here)
    tries.append(lambda: setattr(obj, 'delta', 2))
    for k, t in enumerate(tries):
        try:
            t()
            accepted = True
        except Exception:
            accepted = False
        if accepted:
            return            # this implementation takes the input: nothing is claimed about what follows
        compare(cx, 'after_rejected_%d' % k, views(obj), before)
    MUTATORS['move_one_point'][0](cx, obj, 'r')
    compare(cx, 'valid_edit_after_rejections', views(obj), views(fresh(obj)))


def h_knot_rmw(cx, sp):
    """normalize_kv=False: evaluate, edit the knot-vector list the caller holds, assign the SAME list object again"""
    obj, info = shapes.build(cx, sp, normalize_kv=False)
    if obj.pdimension == 1:
        obj.sample_size = 3
    else:
        obj.sample_size_u, obj.sample_size_v = 3, 2
    # the caller's own list objects are the ones assigned
    attr = 'knotvector' if obj.pdimension == 1 else 'knotvector_u'
    mine = list(getattr(obj, attr))
    setattr(obj, attr, mine)
    views(obj)
    p = shapes.degrees(obj)[0]
    mine[p + 1] = (mine[p] + mine[p + 1]) / 2          # (specs with an interior knot; the domain is unchanged)
    setattr(obj, attr, mine)
    compare(cx, 'after_knot_rmw', views(obj), views(fresh(obj)))


def h_partly_rejected(cx, sp):
    """one insertion call naming two directions of which the second is inadmissible: whatever is applied, all views agree"""
    obj = _build(cx, sp)
    views(obj)
    pv = obj.degree_v
    kv_v = list(obj.knotvector_v)
    x_u = (obj.knotvector_u[obj.degree_u] + obj.knotvector_u[-(obj.degree_u + 1)]) / 2
    x_v = kv_v[pv + 1] if len(kv_v) > 2 * (pv + 1) else (kv_v[pv] + kv_v[-(pv + 1)]) / 2
    try:
        obj.insert_knot(u=x_u, v=x_v, num_u=1, num_v=pv + 1)
    except Exception:
        pass
    compare(cx, 'after_partly_rejected_insert', views(obj), views(fresh(obj)))
    try:
        obj.remove_knot(u=x_u, v=x_v, num_u=1, num_v=pv + 2)
    except Exception:
        pass
    compare(cx, 'after_partly_rejected_remove', views(obj), views(fresh(obj)))


def h_deepcopy(cx, sp, mut, edit_copy):
    obj = _build(cx, sp)
    v0 = views(obj)
    cp = copy.deepcopy(obj)
    compare(cx, 'copy_equals_source', views(cp), v0)
    target, other = (cp, obj) if edit_copy else (obj, cp)
    MUTATORS[mut][0](cx, target, 'c')
    views(target)
    compare(cx, 'other_unchanged', views(other), v0)
    compare(cx, 'edited_consistent', views(target), views(fresh(target)))


def h_bbox(cx, sp, mut):
    """bounding box (forks over the orders of the running min/max): most control points concrete"""
    degs, kvs = sp['degs'], sp['kvs']
    sizes = [len(k) - d - 1 for k, d in zip(kvs, degs)]
    n = 1
    for s in sizes:
        n *= s
    P = [[cx.const(F((3 * i + 2 * d) % 7, 1)) for d in range(sp['dim'])] for i in range(n)]
    P[1] = cx.reals('S', sp['dim'])
    W = [cx.const(F(i % 3 + 1)) for i in range(n)] if sp['rational'] else None
    Ks = [cx.consts(k) for k in kvs]
    if sp['kind'] == 'curve':
        obj = geo.make_curve(cx, degs[0], Ks[0], P, W, normalize_kv=True)
    else:
        obj = geo.make_surface(cx, degs[0], degs[1], Ks[0], Ks[1], sizes[0], sizes[1], P, W, normalize_kv=True)
    b0 = obj.bbox
    cx.check('bbox_shape', len(b0) == 2 and len(b0[0]) == sp['dim'])
    MUTATORS[mut][0](cx, obj, 'b')
    got = [list(x) for x in obj.bbox]
    ref = [list(x) for x in fresh(obj).bbox]
    cx.eq('bbox_after_' + mut, got, ref)
    pts = obj.ctrlpts
    for d in range(sp['dim']):
        for i, p in enumerate(pts):
            cx.ge('bbox_min[%d][%d]' % (d, i), p[d], got[0][d])
            cx.ge('bbox_max[%d][%d]' % (d, i), got[1][d], p[d])


def h_container(cx, rational, scenario):
    multi = geo.M('multi')
    sp = spec('curve', (2,), ((1,),), rational=rational)
    c1, _ = shapes.build(cx, sp, normalize_kv=True)
    P2 = cx.points('R', 4, 2)
    c2 = geo.make_curve(cx, 2, cx.consts(sp['kvs'][0]), P2, cx.reals('z', 4, positive=True) if rational else None, normalize_kv=True)
    mc = multi.CurveContainer()
    mc.sample_size = 3

    def agg(container):
        return {'evalpts': [list(p) for p in container.evalpts], 'len': len(container)}

    def fresh_container(elems):
        f = multi.CurveContainer()
        f.sample_size = 3
        for e in elems:
            f.add(fresh(e))
        return f
    mc.add(c1)
    agg(mc)
    if scenario == 'add':
        mc.add(c2)
        compare(cx, 'after_add', agg(mc), agg(fresh_container([c1, c2])))
    elif scenario == 'edit_element':
        mc.add(c2)
        agg(mc)
        m_ctrlpts_prop(cx, c1, 'e')
        compare(cx, 'after_element_edit', agg(mc), agg(fresh_container([c1, c2])))
    elif scenario == 'sample_size':
        mc.add(c2)
        agg(mc)
        mc.sample_size = 4
        f = multi.CurveContainer()
        f.sample_size = 4
        f.add(fresh(c1))
        f.add(fresh(c2))
        compare(cx, 'after_sample_size', agg(mc), agg(f))
    elif scenario == 'deepcopy':
        mc.add(c2)
        a0 = agg(mc)
        cp = copy.deepcopy(mc)
        compare(cx, 'copy_equals_source', agg(cp), a0)
        m_ctrlpts_prop(cx, cp[0], 'e')
        compare(cx, 'source_unchanged', agg(mc), a0)
        geo.M('operations').translate(cp, cx.reals('tt', 2), inplace=True)
        cx.eq('source_element_unchanged', [list(p) for p in mc[0].ctrlpts], [list(p) for p in c1.ctrlpts])
    elif scenario == 'failed_batch_add':
        # a batch add whose later element is rejected: the accepted ones must be reflected in the aggregate
        bad = geo.make_curve(cx, 2, cx.consts(sp['kvs'][0]), cx.points('B', 4, 3), None, normalize_kv=True)
        try:
            mc.add([c2, bad])
        except Exception:
            pass
        compare(cx, 'after_failed_batch', agg(mc), agg(fresh_container(list(mc))))
    elif scenario == 'add_list':
        mc.add([c2])
        compare(cx, 'after_add_list', agg(mc), agg(fresh_container([c1, c2])))


def h_surface_container(cx, scenario):
    """SurfaceContainer aggregates (sampled points, tessellation) after edits, against a fresh container"""
    multi = geo.M('multi')
    sp = spec('surface', (1, 1), ((), ()), rational=False)
    s1, _ = shapes.build(cx, sp, normalize_kv=True)
    P2 = cx.points('R', 4, 3)
    s2 = geo.make_surface(cx, 1, 1, cx.consts(sp['kvs'][0]), cx.consts(sp['kvs'][1]), 2, 2, P2, None, normalize_kv=True)
    ms = multi.SurfaceContainer()
    ms.sample_size = 3

    def agg(container, tess):
        out = {'evalpts': [list(p) for p in container.evalpts], 'len': len(container)}
        if tess:
            out['vertices'] = [list(v.data) for v in container.vertices]
            out['faces'] = [list(f.data) for f in container.faces]
        return out

    def fresh_container(elems):
        f = multi.SurfaceContainer()
        f.sample_size = 3
        for e in elems:
            f.add(fresh(e))
        return f
    tess = scenario.endswith('+tessellation')
    sc = scenario.split('+')[0]
    ms.add(s1)
    agg(ms, tess)
    if sc == 'add':
        ms.add(s2)
        compare(cx, 'after_add', agg(ms, tess), agg(fresh_container([s1, s2]), tess))
    elif sc == 'edit_element':
        ms.add(s2)
        agg(ms, tess)
        m_ctrlpts_prop(cx, ms[0], 'e')
        compare(cx, 'after_element_edit', agg(ms, tess), agg(fresh_container(list(ms)), tess))
    elif sc in ('add_third', 'same_sample_size', 'reset'):
        # two tessellated elements, then the container cache alone is dropped and everything is read again
        ms.add(s2)
        agg(ms, tess)
        elems = [s1, s2]
        if sc == 'add_third':
            s3 = geo.make_surface(cx, 1, 1, cx.consts(sp['kvs'][0]), cx.consts(sp['kvs'][1]), 2, 2, cx.points('T', 4, 3), None, normalize_kv=True)
            ms.add(s3)
            elems.append(s3)
        elif sc == 'same_sample_size':
            ms.sample_size = 3
        else:
            ms.reset()
        got = agg(ms, tess)
        if tess:
            got['vertex_ids'] = [v.id for v in ms.vertices]
            cx.check('vertex_ids_consecutive', got['vertex_ids'] == list(range(len(got['vertex_ids']))), str(got['vertex_ids'])[:120])
            del got['vertex_ids']
        compare(cx, 'after_' + sc, got, agg(fresh_container(elems), tess))
    elif sc == 'deepcopy':
        ms.add(s2)
        a0 = agg(ms, tess)
        cp = copy.deepcopy(ms)
        compare(cx, 'copy_equals_source', agg(cp, tess), a0)
        tt = cx.reals('tt', 3)
        moved = geo.M('operations').translate(ms, tt, inplace=False)
        ref = fresh_container([s1, s2])
        geo.M('operations').translate(ref, tt, inplace=True)
        compare(cx, 'translated_copy', agg(moved, tess), agg(ref, tess))
        compare(cx, 'source_after_translated_copy', agg(ms, tess), a0)
        cp.sample_size = 4
        agg(cp, tess)
        compare(cx, 'source_after_copy_edit', agg(ms, tess), a0)
    elif sc == 'failed_batch_add':
        # a batch add whose later element is rejected: the accepted ones must be reflected in every aggregate
        bad = geo.make_surface(cx, 1, 1, cx.consts(sp['kvs'][0]), cx.consts(sp['kvs'][1]), 2, 2, cx.points('B', 4, 2), None, normalize_kv=True)
        try:
            ms.add([s2, bad])
        except Exception:
            pass
        cx.check('accepted_element_added', len(ms) == 2, 'len %d' % len(ms))
        compare(cx, 'after_failed_batch', agg(ms, tess), agg(fresh_container(list(ms)), tess))
    elif sc == 'sample_size':
        ms.add(s2)
        agg(ms, tess)
        ms.sample_size = 4
        f = multi.SurfaceContainer()
        f.sample_size = 4
        f.add(fresh(s1))
        f.add(fresh(s2))
        compare(cx, 'after_sample_size', agg(ms, tess), agg(f, tess))


def instances(tier):
    out = []
    quick = tier == 'quick'
    specs = []
    for rational in (False, True):
        specs.append(spec('curve', (2,), ((1,),), rational=rational))
        specs.append(spec('surface', (1, 2), ((), (1,)), rational=rational))
    specs.append(spec('volume', (1, 1, 1), ((), (), ()), rational=True))
    specs.append(spec('volume', (1, 1, 1), ((), (), ()), rational=False))
    for sp in specs:
        for m in MUTATORS:
            if applicable(m, sp):
                out.append(inst('%s history [%s]' % (spec_name(sp), m), h_history, timeout=900, sp=sp, muts=(m,)))
    # deep copies
    for sp in specs[:4]:
        for m in ('ctrlpts=', 'insert_knot', 'translate_inplace', 'weights=', 'reverse', 'transpose', 'sample_size='):
            if applicable(m, sp):
                for edit_copy in (True, False):
                    out.append(inst('%s deepcopy edit_%s [%s]' % (spec_name(sp), 'copy' if edit_copy else 'source', m), h_deepcopy, timeout=900, sp=sp, mut=m, edit_copy=edit_copy))
    # bounding box
    for sp in (spec('curve', (2,), ((),), rational=False), spec('curve', (2,), ((),), rational=True), spec('surface', (1, 1), ((), ()), rational=False)):
        for m in ('move_one_point', 'translate_inplace', 'reverse', 'scale_inplace', 'insert_knot', 'transpose', 'flip'):
            if applicable(m, sp):
                out.append(inst('%s bbox [%s]' % (spec_name(sp), m), h_bbox, timeout=1200, sp=sp, mut=m))
    for sp in specs[:6]:
        out.append(inst('%s rejected assignments' % spec_name(sp), h_rejected, timeout=1200, sp=sp))
    for sp in (spec('curve', (2,), ((1,),), rational=False), spec('curve', (3,), ((1, 1),), rational=True), spec('surface', (1, 2), ((1,), ()), rational=False)):
        out.append(inst('%s knot vector edited in the caller list and assigned again' % spec_name(sp), h_knot_rmw, timeout=1200, sp=sp))
    for sp in (spec('surface', (1, 2), ((), (1,)), rational=False), spec('surface', (2, 2), ((), ()), rational=True)):
        out.append(inst('%s partly rejected two-direction insert / remove' % spec_name(sp), h_partly_rejected, timeout=1800, sp=sp))
    for rational in (False, True):
        for sc in ('add', 'edit_element', 'sample_size', 'add_list', 'deepcopy', 'failed_batch_add'):
            out.append(inst('container %s %s' % ('rat' if rational else 'nonrat', sc), h_container, timeout=900, rational=rational, scenario=sc))
    for sc in ('add', 'edit_element', 'sample_size', 'failed_batch_add', 'deepcopy', 'add+tessellation', 'edit_element+tessellation', 'sample_size+tessellation', 'failed_batch_add+tessellation',
               'add_third+tessellation', 'same_sample_size+tessellation', 'reset+tessellation', 'deepcopy+tessellation'):
        out.append(inst('surface container %s' % sc, h_surface_container, timeout=900, scenario=sc))
    if not quick:
        pair_muts = ['ctrlpts=', 'weights=', 'ctrlptsw=', 'knotvector=', 'sample_size=', 'insert_knot', 'remove_knot', 'refine_knotvector',
                     'reverse', 'transpose', 'flip', 'translate_inplace', 'scale_inplace', 'ctrlpts2d=', 'move_one_point']
        for sp in specs[:4]:
            for m1 in pair_muts:
                for m2 in pair_muts:
                    if applicable(m1, sp) and applicable(m2, sp):
                        out.append(inst('%s history [%s ; %s]' % (spec_name(sp), m1, m2), h_history, timeout=2400, sp=sp, muts=(m1, m2)))
    return out
