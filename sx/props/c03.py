"""C03 - basis functions, knot-span search, knot vector generation / normalisation / validation."""
from fractions import Fraction as F

from .. import families as fam
from .. import geo, oracles
from ..run import inst

PROPERTY = 'C03'
ASSUMPTIONS = [
    'parameter lies in the closed domain and is either equal to a knot or farther than 1e-5 from every knot (snap zone of the tolerance comparisons, DESIGN 2.5)',
    'symbolic-knot instances: distinct knots at least 1e-3 apart',
    'basis_function_ders(_one) are called with order <= degree (their documented contract); the single-function derivative variant is compared for parameters before the domain end',
]
OUTSIDE = ['degrees > 5 (quick) / 7 (thorough); derivative variants: degrees > 5 and degree 5 with more than one interior knot', 'more than 3 distinct interior knots', 'symbolic knots for degree > 3']
BOUNDS = {'quick': 'p=1..5, KQ patterns + unclamped; symbolic knots p<=2; generate p=1..7 n<=p+8; generate after an earlier result was edited in place; knot vectors times a symbolic factor at helper level',
          'thorough': 'p=1..7, all patterns <=3 interior knots (p<=4) / <=2 (p>=5); symbolic knots p<=3'}


def _knots(cx, kv, symk):
    if not symk:
        return cx.consts(kv)
    vals = fam.distinct(kv)
    syms = {}
    prev = None
    for i, v in enumerate(vals):
        s = cx.real('k%d' % i)
        if prev is not None:
            cx.assume(s - prev >= F(1, 1000), check=False)
        prev = s
        syms[v] = s
    return [syms[v] for v in kv]


def h_basis(cx, p, kv, symk=False, ge=True):
    H = geo.M('helpers')
    K = _knots(cx, kv, symk)
    n = len(kv) - p - 1
    u = cx.real('u', lo=K[p], hi=K[n], param=True)
    cx.snap(u, K)
    s_lin = H.find_span_linear(p, K, n, u)
    s_bin = H.find_span_binsearch(p, K, n, u)
    cx.check('span_linear==binsearch', s_lin == s_bin, 'linear %s vs binary %s' % (s_lin, s_bin))
    k = oracles.span_of(p, K, u, cx)
    cx.check('span==definition', s_lin == k, 'find_span_linear %s, definition %s' % (s_lin, k))
    # multiplicity
    mult = H.find_multiplicity(u, K)
    cnt = sum(1 for x in K if cx.holds(x == u))
    cx.check('multiplicity', mult == cnt, 'find_multiplicity %s, equal knots %s' % (mult, cnt))
    # basis functions on the span returned by the search
    N = H.basis_function(p, K, s_lin, u)
    cx.check('basis_len', len(N) == p + 1)
    ref = oracles.all_basis_def(p, K, u, cx)
    tot = 0
    for j in range(p + 1):
        i = s_lin - p + j
        cx.eq('N==CoxDeBoor[%d]' % j, N[j], ref[i] if 0 <= i < n else 0)
        tot = tot + N[j]
        if ge:
            cx.ge('N>=0[%d]' % j, N[j], 0)
        one = H.basis_function_one(p, K, i, u)
        cx.eq('N==basis_function_one[%d]' % j, N[j], one)
    cx.eq('partition_of_unity', tot, 1)
    for i in range(n):
        if not (s_lin - p <= i <= s_lin):
            cx.eq('vanishing_one[%d]' % i, H.basis_function_one(p, K, i, u), 0)
            cx.eq('vanishing_def[%d]' % i, ref[i], 0)
    allN = H.basis_function_all(p, K, s_lin, u)
    for j in range(p + 1):
        cx.eq('N==basis_function_all[%d]' % j, allN[j][p], N[j])
    # lower degrees from basis_function_all: column d holds the degree-d functions
    for d in range(p):
        sub = H.basis_function(d, K, s_lin, u)
        for j in range(d + 1):
            cx.eq('all_deg%d[%d]' % (d, j), allN[j][d], sub[j])
    # plural variants
    cx.eq('find_spans', H.find_spans(p, K, n, [u]), [s_lin])
    cx.eq('basis_functions', H.basis_functions(p, K, [s_lin], [u]), [N])


def h_basis_kscaled(cx, p, kv):
    """the whole knot vector multiplied by ONE symbolic factor alpha > 0 of any size (spans of width 1e-9 as well as
    1e9): basis functions depend on ratios of knot differences only.  (Span search by bisection and the multiplicity
    count use absolute tolerances by design and are not part of this harness.)"""
    H = geo.M('helpers')
    alpha = cx.real('alpha', lo=0)
    cx.assume(alpha > 0)
    n = len(kv) - p - 1
    K0 = cx.consts(kv)
    K = [alpha * k for k in K0]
    t = cx.real('t', lo=K0[p], hi=K0[n], param=True)
    cx.snap(t, K0)
    u = alpha * t
    s_lin = H.find_span_linear(p, K, n, u)
    k = oracles.span_of(p, K0, t, cx)
    cx.check('span==definition', s_lin == k, 'find_span_linear %s, definition %s' % (s_lin, k))
    N = H.basis_function(p, K, s_lin, u)
    ref = oracles.all_basis_def(p, K0, t, cx)          # invariant under the scaling
    tot = 0
    for j in range(p + 1):
        i = s_lin - p + j
        cx.eq('N==CoxDeBoor[%d]' % j, N[j], ref[i] if 0 <= i < n else 0)
        cx.eq('N==basis_function_one[%d]' % j, N[j], H.basis_function_one(p, K, i, u))
        tot = tot + N[j]
    cx.eq('partition_of_unity', tot, 1)
    allN = H.basis_function_all(p, K, s_lin, u)
    for j in range(p + 1):
        cx.eq('N==basis_function_all[%d]' % j, allN[j][p], N[j])
    ders = H.basis_function_ders(p, K, s_lin, u, min(p, 2))
    for j in range(p + 1):
        cx.eq('ders0==N[%d]' % j, ders[0][j], N[j])
    for d in range(1, min(p, 2) + 1):
        tot_d = 0
        for j in range(p + 1):
            tot_d = tot_d + ders[d][j]
        cx.eq('ders%d_sum_to_zero' % d, tot_d, 0)


def h_ders(cx, p, kv, symk=False):
    H = geo.M('helpers')
    K = _knots(cx, kv, symk)
    n = len(kv) - p - 1
    u = cx.real('u', lo=K[p], hi=K[n], param=True)
    cx.assume(u < K[n])
    cx.snap(u, K)
    s = H.find_span_linear(p, K, n, u)
    order = p
    ders = H.basis_function_ders(p, K, s, u, order)
    ref = oracles.basis_ders_on_span(p, K, s, u, order, cx)
    N = H.basis_function(p, K, s, u)
    cx.check('ders_rows', len(ders) == order + 1)
    for d in range(order + 1):
        tot = 0
        for j in range(p + 1):
            cx.eq('ders[%d][%d]==formal' % (d, j), ders[d][j], ref[d][j])
            tot = tot + ders[d][j]
        if d == 0:
            cx.eq('ders[0]==basis_function', ders[0], N)
            cx.eq('sum_ders[0]', tot, 1)
        else:
            cx.eq('sum_ders[%d]' % d, tot, 0)
    for j in range(p + 1):
        one = H.basis_function_ders_one(p, K, s - p + j, u, order)
        cx.eq('ders_one[%d]' % j, list(one), [ders[d][j] for d in range(order + 1)])
    cx.eq('basis_functions_ders', H.basis_functions_ders(p, K, [s], [u], order), [ders])


def h_plural(cx, p, kv):
    """list variants: the result for a list is the list of the single results, whatever precedes a parameter"""
    H = geo.M('helpers')
    K = _knots(cx, kv, False)
    n = len(kv) - p - 1
    us = []
    for i in range(2):
        u = cx.real('u%d' % i, lo=K[p], hi=K[n], param=True)
        cx.snap(u, K)
        us.append(u)
    singles = [H.find_span_linear(p, K, n, u) for u in us]
    for fn in ('find_span_linear', 'find_span_binsearch'):
        cx.eq('find_spans[%s]' % fn, H.find_spans(p, K, n, list(us), getattr(H, fn)), singles)
    cx.eq('find_spans[default]', H.find_spans(p, K, n, list(us)), singles)
    cx.eq('find_spans[reversed]', H.find_spans(p, K, n, list(reversed(us))), list(reversed(singles)))
    cx.eq('basis_functions', H.basis_functions(p, K, singles, list(us)), [H.basis_function(p, K, s, u) for s, u in zip(singles, us)])
    cx.eq('basis_functions_ders', H.basis_functions_ders(p, K, singles, list(us), 1), [H.basis_function_ders(p, K, s, u, 1) for s, u in zip(singles, us)])


def h_generate(cx, p, n, clamped, earlier=False):
    KV = geo.M('knotvector')
    if earlier:
        # an earlier result for the same arguments was edited in place by its owner (rescaled, reversed)
        old = KV.generate(p, n, clamped=clamped)
        for i in range(len(old)):
            old[i] = 5 - 3 * old[i]
        old.reverse()
        old2 = geo.M('utilities').generate_knot_vector(p, n, clamped=clamped)
        old2[len(old2) // 2] = 7
    kv = KV.generate(p, n, clamped=clamped)
    cx.check('length', len(kv) == n + p + 1, 'len %d' % len(kv))
    cx.check('check()', KV.check(p, kv, n) is True)
    for a, b in zip(kv, kv[1:]):
        cx.check('nondecreasing', cx.holds(a <= b))
    if clamped:
        for i in range(p + 1):
            cx.eq('start[%d]' % i, kv[i], 0)
            cx.eq('end[%d]' % i, kv[-1 - i], 1)
        cx.check('interior_start', cx.holds(kv[p + 1] > 0) if n > p + 1 else True)
        cx.check('interior_end', cx.holds(kv[-p - 2] < 1) if n > p + 1 else True)
        # interior knots equally spaced
        m = n - p - 1
        for i in range(m):
            cx.eq('interior[%d]' % i, kv[p + 1 + i], F(i + 1, m + 1))
    else:
        cx.eq('first', kv[0], 0)
        cx.eq('last', kv[-1], 1)
        for i in range(len(kv)):
            cx.eq('uniform[%d]' % i, kv[i], F(i, len(kv) - 1))
    # wrong length / decreasing order are rejected
    cx.check('reject_short', KV.check(p, kv[:-1], n) is False)
    cx.check('reject_long', KV.check(p, list(kv) + [kv[-1]], n) is False)


def h_normalize(cx, m):
    """symbolic non-decreasing vector of m knots: normalisation is the affine map onto [0,1]"""
    KV = geo.M('knotvector')
    k = [cx.real('k0')]
    for i in range(1, m):
        x = cx.real('k%d' % i)
        cx.assume(x >= k[-1], check=False)
        k.append(x)
    cx.assume(k[-1] - k[0] >= F(1, 1000), check=False)
    out = KV.normalize(list(k))
    cx.check('len', len(out) == m)
    cx.eq('first', out[0], 0)
    cx.eq('last', out[-1], 1)
    for i in range(m):
        cx.eq('affine[%d]' % i, out[i], (k[i] - k[0]) / (k[-1] - k[0]))
    for i in range(m - 1):
        cx.ge('order[%d]' % i, out[i + 1], out[i])


def h_check_reject(cx, p, n):
    """symbolic vector: check() is True exactly when it is non-decreasing (length right), False on any decreasing pair"""
    KV = geo.M('knotvector')
    m = n + p + 1
    k = cx.reals('k', m)
    res = KV.check(p, list(k), n)
    dec = False
    for a, b in zip(k, k[1:]):
        if cx.holds(a > b):
            dec = True
    cx.check('check==nondecreasing', res is (not dec), 'check() returned %s, has decreasing pair: %s' % (res, dec))


def _spans(kv, p):
    n = len(kv) - p - 1
    return len(fam.distinct(kv[p:n + 1])) - 1


def instances(tier):
    out = []
    quick = tier == 'quick'
    for p in ((1, 2, 3, 4, 5) if quick else (1, 2, 3, 4, 5, 6, 7)):
        pats = fam.kq_patterns(p) if quick else fam.kt_patterns(p, 3 if p <= 4 else 2)
        for m in pats:
            kv = fam.pattern(p, m)
            out.append(inst('basis p%d m%s' % (p, m), h_basis, min_paths=_spans(kv, p) + 1, p=p, kv=kv))
            if p <= 5 and (p <= 4 or len(m) <= 1):
                out.append(inst('ders p%d m%s' % (p, m), h_ders, min_paths=_spans(kv, p), timeout=400, p=p, kv=kv))
        out.append(inst('basis p%d unclamped' % p, h_basis, min_paths=2, p=p, kv=fam.unclamped_uniform(p, p + 3)))
        if p <= 3:
            out.append(inst('basis p%d m(%d,) full-multiplicity knot' % (p, p + 1), h_basis, min_paths=2, p=p, kv=fam.pattern(p, (p + 1,))))
            out.append(inst('basis p%d m(1,%d) full-multiplicity knot' % (p, p + 1), h_basis, min_paths=3, p=p, kv=fam.pattern(p, (1, p + 1))))
            for m in sorted(set([(1,), (p,), (1, 2) if p >= 2 else (1, 1)])):
                out.append(inst('plural p%d m%s' % (p, m), h_plural, timeout=600, p=p, kv=fam.pattern(p, m)))
        if p <= 5:
            out.append(inst('ders p%d unclamped' % p, h_ders, min_paths=2, timeout=400, p=p, kv=fam.unclamped_unit(p, p + 2)))
        out.append(inst('basis p%d domain[2,5]' % p, h_basis, min_paths=2, p=p, kv=fam.pattern(p, (1, min(2, p)), 2, 5)))
    symk = [(1, (1,)), (1, (1, 1)), (2, (1,)), (2, (2,))] if quick else \
        [(1, (1,)), (1, (1, 1)), (2, (1,)), (2, (2,)), (2, (1, 1)), (3, (1,)), (3, (2,)), (3, (1, 1))]
    for p, m in symk:
        out.append(inst('basis p%d m%s symknots' % (p, m), h_basis, timeout=600, min_paths=len(m) + 1, p=p, kv=fam.pattern(p, m), symk=True, ge=(p <= 2)))
        out.append(inst('ders p%d m%s symknots' % (p, m), h_ders, timeout=600, min_paths=len(m) + 1, p=p, kv=fam.pattern(p, m), symk=True))
    for p in ((1, 2, 3) if quick else (1, 2, 3, 4)):
        for m in sorted(set([(1,), (1, 1), (p, 1)])):
            out.append(inst('basis p%d m%s knots times a symbolic factor' % (p, m), h_basis_kscaled, timeout=600, min_paths=2, p=p, kv=fam.pattern(p, m)))
    for p in range(1, 8):
        for n in range(p + 1, p + (6 if quick else 9)):
            for clamped in (True, False):
                out.append(inst('generate p%d n%d %s' % (p, n, 'clamped' if clamped else 'unclamped'), h_generate, p=p, n=n, clamped=clamped))
                if n in (p + 1, p + 3):
                    out.append(inst('generate p%d n%d %s after an edited earlier result' % (p, n, 'clamped' if clamped else 'unclamped'), h_generate, p=p, n=n, clamped=clamped, earlier=True))
    for m in ((2, 4, 6) if quick else (2, 3, 4, 6, 8, 10)):
        out.append(inst('normalize m%d' % m, h_normalize, m=m))
    for p, n in ([(1, 2), (2, 3)] if quick else [(1, 2), (2, 3), (1, 4), (3, 4)]):
        out.append(inst('check_reject p%d n%d' % (p, n), h_check_reject, timeout=600, p=p, n=n))
    return out
