"""C01 - evaluated points equal the B-spline/NURBS definition (all entry points, grids)."""
from fractions import Fraction as F

from .. import families as fam
from .. import geo, oracles
from ..run import inst

PROPERTY = 'C01'
ASSUMPTIONS = [
    'weights are positive; parameters lie in the closed domain',
    'symbolic-knot instances: distinct knots are at least 1e-3 apart (DESIGN 2.5)',
]
OUTSIDE = ['degrees > 5', 'more than 3 distinct interior knots', 'sample sizes > 5 (quick) / 9 (thorough)',
           'symbolic knots for degree > 3', 'IEEE rounding, 18-digit rounding of linspace']
BOUNDS = {
    'quick': 'curves p=1..3 x KQ patterns (+unclamped, +domain [2,5]) 2-D/3-D rational/non-rational; surfaces (1,2),(2,1),(2,2),(3,2); volume (1,1,2),(2,1,1); grids 2..4; sampled segments / sub-rectangles incl. start > stop; knot read-modify-write between two grid evaluations; evaluation after a rejected ragged set_ctrlpts',
    'thorough': 'curves p=1..5 x all patterns with <=3 interior knots; symbolic knots p<=3; surfaces up to (3,3); volumes up to (2,2,2); grids 2..7',
}


def _curve_setup(cx, p, kv, dim, rational, symk=False, **kw):
    n = len(kv) - p - 1
    if symk:
        vals = fam.distinct(kv)
        syms = {}
        prev = None
        for i, v in enumerate(vals):
            s = cx.real('k%d' % i)
            if prev is not None:
                cx.assume(s - prev >= F(1, 1000), check=False)
            prev = s
            syms[v] = s
        K = [syms[v] for v in kv]
    else:
        K = cx.consts(kv)
    P = cx.points('P', n, dim)
    W = cx.reals('w', n, positive=True) if rational else None
    c = geo.make_curve(cx, p, K, P, W, **kw)
    return c, K, P, W, n


def h_curve(cx, p, kv, dim=2, rational=False, symk=False, span=None, normalize=False):
    kw = {}
    if span is not None:
        kw['find_span_func'] = getattr(geo.M('helpers'), span)
    c, K, P, W, n = _curve_setup(cx, p, kv, dim, rational, symk, normalize_kv=normalize, **kw)
    u = cx.real('u', lo=K[p], hi=K[n], param=True)
    ref = oracles.curve_point_def(p, K, P, W, u, cx)
    pt = c.evaluate_single(u)
    cx.eq('evaluate_single', pt, ref)
    cx.eq('evaluate_list', c.evaluate_list([u]), [ref])
    d0 = c.derivatives(u, 0)
    cx.eq('derivatives0', d0, [ref])
    ev = c.evaluator.evaluate(c.data, start=u, stop=u)
    cx.eq('evaluator.evaluate', ev, [ref])


def h_curve_grid(cx, p, kv, dim, rational, ss, start=None, stop=None):
    c, K, P, W, n = _curve_setup(cx, p, kv, dim, rational)
    c.sample_size = ss
    if start is None:
        c.evaluate()
        a, b = kv[p], kv[n]
    else:
        # a segment [start, stop] of the domain; start > stop sweeps it backwards
        try:
            c.evaluate(start=cx.const(start), stop=cx.const(stop))
        except (ValueError, geo.M('exceptions').GeomdlException):
            if start > stop:
                return          # a backwards segment may be refused; if it is accepted it must be the definition's
            raise
        a, b = start, stop
    pts = c.evalpts
    cx.check('grid_len', len(pts) == ss, 'len(evalpts)=%d, sample_size=%d' % (len(pts), ss))
    for i in range(min(ss, len(pts))):
        ui = cx.const(a + (b - a) * F(i, ss - 1))
        cx.eq('grid[%d]' % i, pts[i], oracles.curve_point_def(p, K, P, W, ui, cx))


def _surf_setup(cx, pu, pv, kvu, kvv, dim, rational, **kw):
    su, sv = len(kvu) - pu - 1, len(kvv) - pv - 1
    Ku, Kv = cx.consts(kvu), cx.consts(kvv)
    P = cx.points('P', su * sv, dim)
    W = cx.reals('w', su * sv, positive=True) if rational else None
    s = geo.make_surface(cx, pu, pv, Ku, Kv, su, sv, P, W, **kw)
    return s, Ku, Kv, P, W, su, sv


def h_curve_grid_after_knot_edit(cx, p, kv, kv2, dim, rational, ss, normalize):
    """read-modify-write of the knot vector between two grid evaluations: `k = c.knotvector; k[i] = x; c.knotvector = k`
    (the list the shape handed out is edited in place and assigned back); the second grid is the definition's for kv2"""
    c, K, P, W, n = _curve_setup(cx, p, kv, dim, rational, normalize_kv=normalize)
    c.sample_size = ss
    c.evaluate()
    first = [list(q) for q in c.evalpts]
    k = c.knotvector
    K2 = cx.consts(kv2)
    try:
        for i in range(len(K2)):
            k[i] = K2[i]
    except TypeError:
        k = list(K2)           # the getter hands out an immutable sequence
    c.knotvector = k
    c.evaluate()
    pts = c.evalpts
    cx.check('grid_len', len(pts) == ss)
    a, b = kv2[p], kv2[n]
    for i in range(ss):
        ui = cx.const(a + (b - a) * F(i, ss - 1))
        cx.eq('grid_after[%d]' % i, pts[i], oracles.curve_point_def(p, K2, P, W, ui, cx))
    a, b = kv[p], kv[n]
    for i in range(ss):
        ui = cx.const(a + (b - a) * F(i, ss - 1))
        cx.eq('grid_before[%d]' % i, first[i], oracles.curve_point_def(p, K, P, W, ui, cx))


def h_after_rejected_ctrlpts(cx, p, kv, dim, rational):
    """a control-point assignment that is rejected (ragged input) may leave the shape unusable, but a shape that still
    evaluates must evaluate to the definition of what its getters report"""
    c, K, P, W, n = _curve_setup(cx, p, kv, dim, rational)
    u = cx.real('u', lo=K[p], hi=K[n], param=True)
    cx.eq('before', c.evaluate_single(u), oracles.curve_point_def(p, K, P, W, u, cx))
    width = dim + (1 if rational else 0)
    bad = [[cx.const(1)] * (width - 1)] + [[cx.const(2)] * width for _ in range(n - 2)] + [[cx.const(3)] * (width - 2)]
    try:
        c.set_ctrlpts(bad)
        return                        # accepted: nothing claimed
    except Exception:
        pass
    try:
        pt = c.evaluate_single(u)
        view = [list(q) for q in (c.ctrlptsw if rational else c.ctrlpts)]
    except Exception:
        return                        # the shape refuses further use: fine
    if len(view) != n or any(len(q) != width for q in view):
        return
    Pv = [[x / q[-1] for x in q[:-1]] for q in view] if rational else view
    Wv = [q[-1] for q in view] if rational else None
    cx.check('point_dimension', len(pt) == dim, 'point has %d coordinates, shape is %d-dimensional' % (len(pt), dim))
    if len(pt) == dim:
        cx.eq('evaluates_what_it_reports', pt, oracles.curve_point_def(p, K, Pv, Wv, u, cx))


def h_surface(cx, pu, pv, kvu, kvv, dim=3, rational=False):
    s, Ku, Kv, P, W, su, sv = _surf_setup(cx, pu, pv, kvu, kvv, dim, rational)
    u = cx.real('u', lo=Ku[pu], hi=Ku[su], param=True)
    v = cx.real('v', lo=Kv[pv], hi=Kv[sv], param=True)
    ref = oracles.surface_point_def(pu, pv, Ku, Kv, su, sv, P, W, u, v, cx)
    cx.eq('evaluate_single', s.evaluate_single((u, v)), ref)
    cx.eq('evaluate_list', s.evaluate_list([(u, v)]), [ref])
    cx.eq('derivatives0', s.derivatives(u, v, 0)[0][0], ref)


def h_surface_grid(cx, pu, pv, kvu, kvv, dim, rational, ssu, ssv, rng=None):
    s, Ku, Kv, P, W, su, sv = _surf_setup(cx, pu, pv, kvu, kvv, dim, rational)
    s.sample_size_u = ssu
    s.sample_size_v = ssv
    if rng is None:
        s.evaluate()
        au, bu, av, bv = kvu[pu], kvu[su], kvv[pv], kvv[sv]
    else:
        au, bu, av, bv = rng          # a sub-rectangle; start > stop sweeps a direction backwards
        try:
            s.evaluate(start_u=cx.const(au), stop_u=cx.const(bu), start_v=cx.const(av), stop_v=cx.const(bv))
        except (ValueError, geo.M('exceptions').GeomdlException):
            if au > bu or av > bv:
                return
            raise
    pts = s.evalpts
    cx.check('grid_len', len(pts) == ssu * ssv, 'len(evalpts)=%d' % len(pts))
    for i in range(ssu):
        for j in range(ssv):
            idx = j + ssv * i
            if idx >= len(pts):
                continue
            ui = cx.const(au + (bu - au) * F(i, ssu - 1))
            vj = cx.const(av + (bv - av) * F(j, ssv - 1))
            cx.eq('grid[%d][%d]' % (i, j), pts[idx], oracles.surface_point_def(pu, pv, Ku, Kv, su, sv, P, W, ui, vj, cx))


def _vol_setup(cx, degs, kvs, dim, rational):
    sizes = [len(k) - d - 1 for k, d in zip(kvs, degs)]
    Ks = [cx.consts(k) for k in kvs]
    n = sizes[0] * sizes[1] * sizes[2]
    P = cx.points('P', n, dim)
    W = cx.reals('w', n, positive=True) if rational else None
    vol = geo.make_volume(cx, degs, Ks, sizes, P, W)
    return vol, Ks, P, W, sizes


def h_volume(cx, degs, kvs, dim=3, rational=False):
    vol, Ks, P, W, sizes = _vol_setup(cx, degs, kvs, dim, rational)
    prm = [cx.real(nm, lo=Ks[i][degs[i]], hi=Ks[i][sizes[i]], param=True) for i, nm in enumerate('uvw')]
    ref = oracles.volume_point_def(degs, Ks, sizes, P, W, prm, cx)
    cx.eq('evaluate_single', vol.evaluate_single(tuple(prm)), ref)
    cx.eq('evaluate_list', vol.evaluate_list([tuple(prm)]), [ref])


def h_volume_grid(cx, degs, kvs, dim, rational, ss):
    vol, Ks, P, W, sizes = _vol_setup(cx, degs, kvs, dim, rational)
    vol.sample_size_u, vol.sample_size_v, vol.sample_size_w = ss
    vol.evaluate()
    pts = vol.evalpts
    cx.check('grid_len', len(pts) == ss[0] * ss[1] * ss[2], 'len(evalpts)=%d' % len(pts))
    lo = [kvs[i][degs[i]] for i in range(3)]
    hi = [kvs[i][sizes[i]] for i in range(3)]
    # documented ordering of volume samples: u slowest ... as produced by the evaluator loops (u, v, w)
    for i in range(ss[0]):
        for j in range(ss[1]):
            for k in range(ss[2]):
                idx = k + ss[2] * (j + ss[1] * i)
                if idx >= len(pts):
                    continue
                prm = [cx.const(lo[d] + (hi[d] - lo[d]) * F(t, ss[d] - 1)) for d, t in enumerate((i, j, k))]
                cx.eq('grid[%d][%d][%d]' % (i, j, k), pts[idx], oracles.volume_point_def(degs, Ks, sizes, P, W, prm, cx))


def _spans(kv, p):
    """number of non-empty spans of the domain"""
    n = len(kv) - p - 1
    return len(fam.distinct(kv[p:n + 1])) - 1


def instances(tier):
    out = []
    quick = tier == 'quick'
    degs = (1, 2, 3) if quick else (1, 2, 3, 4, 5, 6, 7)
    for p in degs:
        pats = fam.kq_patterns(p) if quick else fam.kt_patterns(p, 3 if p <= 3 else (2 if p <= 5 else 1))
        for m in pats:
            kv = fam.pattern(p, m)
            for rational in (False, True):
                if not quick and p >= 4 and rational and len(m) > 2:
                    continue
                dim = 3 if (p + len(m)) % 2 else 2
                out.append(inst('curve p%d m%s %s %dD' % (p, m, 'rat' if rational else 'nonrat', dim), h_curve,
                                min_paths=_spans(kv, p) + 1, p=p, kv=kv, dim=dim, rational=rational))
        # unclamped uniform, non-normalised domain, binary search, normalize_kv=True
        out.append(inst('curve p%d unclamped rat' % p, h_curve, min_paths=2, p=p, kv=fam.unclamped_uniform(p, p + 3), dim=2, rational=True))
        out.append(inst('curve p%d unclamped nonrat' % p, h_curve, min_paths=2, p=p, kv=fam.unclamped_unit(p, p + 2), dim=2, rational=False))
        out.append(inst('curve p%d domain[2,5] rat' % p, h_curve, min_paths=3, p=p, kv=fam.pattern(p, (1, 1), 2, 5), dim=2, rational=True))
        out.append(inst('curve p%d domain[-1,1] nonrat' % p, h_curve, min_paths=3, p=p, kv=fam.pattern(p, (1, 1), -1, 1), dim=2, rational=False))
        out.append(inst('curve p%d binsearch' % p, h_curve, min_paths=3, p=p, kv=fam.pattern(p, (1, p)), dim=2, rational=False, span='find_span_binsearch'))
        out.append(inst('curve p%d normalize_kv' % p, h_curve, min_paths=3, p=p, kv=fam.pattern(p, (1, 1)), dim=2, rational=True, normalize=True))
    out.append(inst('curve p2 4D nonrat', h_curve, p=2, kv=fam.pattern(2, (1,)), dim=4, rational=False))
    # symbolic knots
    symk = [(1, (1,)), (2, (1,)), (2, (2,)), (3, (1,))] if quick else [(1, (1, 1)), (2, (1,)), (2, (2,)), (2, (1, 1)), (3, (1,)), (3, (2,)), (3, (1, 2))]
    for p, m in symk:
        for rational in (False, True):
            out.append(inst('curve p%d m%s symknots %s' % (p, m, 'rat' if rational else 'nonrat'), h_curve, timeout=400,
                            min_paths=len(m) + 1, p=p, kv=fam.pattern(p, m), dim=2, rational=rational, symk=True))
    # grids
    for p, m, ss in ([(2, (1,), 2), (2, (1,), 5), (3, (2,), 4), (1, (1, 1), 3)] if quick else
                     [(2, (1,), 2), (2, (1,), 5), (3, (2,), 4), (1, (1, 1), 3), (3, (1, 1), 9), (4, (1,), 7), (5, (), 6), (2, (2, 1), 8)]):
        for rational in (False, True):
            out.append(inst('curvegrid p%d m%s ss%d %s' % (p, m, ss, 'rat' if rational else 'nonrat'), h_curve_grid,
                            p=p, kv=fam.pattern(p, m), dim=2, rational=rational, ss=ss))
    for p in (1, 2, 3):
        out.append(inst('curvegrid p%d unclamped ss4' % p, h_curve_grid, p=p, kv=fam.unclamped_unit(p, p + 2), dim=2, rational=(p == 2), ss=4))
        out.append(inst('curvegrid p%d unclamped[p,n] ss3' % p, h_curve_grid, p=p, kv=fam.unclamped_uniform(p, p + 3), dim=2, rational=(p != 2), ss=3))
    for p, m, rational, (a, b), ss in [(2, (1, 1), False, (F(1, 10), F(9, 10)), 5), (2, (1, 1), True, (F(9, 10), F(1, 10)), 5), (3, (2,), False, (F(1), F(0)), 4),
                                       (1, (1, 1, 1), True, (F(4, 5), F(1, 5)), 4), (3, (1, 1), True, (F(7, 8), F(1, 8)), 7)]:
        out.append(inst('curvegrid p%d m%s segment[%s,%s] ss%d %s' % (p, m, a, b, ss, 'rat' if rational else 'nonrat'), h_curve_grid,
                        p=p, kv=fam.pattern(p, m), dim=2, rational=rational, ss=ss, start=a, stop=b))
    out.append(inst('curvegrid p2 unclamped segment backwards ss4', h_curve_grid, p=2, kv=fam.unclamped_unit(2, 5), dim=2, rational=False, ss=4,
                    start=fam.unclamped_unit(2, 5)[5], stop=fam.unclamped_unit(2, 5)[2]))
    for (pu, pv), (mu, mv), rational, rng, (ssu, ssv) in [((1, 2), ((1,), (1,)), False, (F(0), F(1), F(1), F(0)), (3, 4)), ((2, 1), ((1, 1), ()), True, (F(9, 10), F(1, 10), F(1, 5), F(4, 5)), (4, 2)),
                                                       ((2, 2), ((1,), (1,)), False, (F(1, 4), F(3, 4), F(3, 4), F(1, 4)), (3, 3))]:
        out.append(inst('surfgrid p%d,%d m%s,%s sub-rectangle%s ss%dx%d %s' % (pu, pv, mu, mv, tuple(str(x) for x in rng), ssu, ssv, 'rat' if rational else 'nonrat'), h_surface_grid, timeout=600,
                        pu=pu, pv=pv, kvu=fam.pattern(pu, mu), kvv=fam.pattern(pv, mv), dim=3, rational=rational, ssu=ssu, ssv=ssv, rng=rng))
    for p, kv, kv2, rational, normalize in [(2, [0, 0, 0, F(1, 4), F(1, 2), 1, 1, 1], [0, 0, 0, F(1, 2), F(3, 4), 1, 1, 1], False, True),
                                            (2, [0, 0, 0, F(1, 4), F(1, 2), 1, 1, 1], [0, 0, 0, F(1, 2), F(3, 4), 1, 1, 1], True, False),
                                            (3, [0, 0, 0, 0, F(1, 3), 1, 1, 1, 1], [0, 0, 0, 0, F(2, 3), 1, 1, 1, 1], False, False),
                                            (1, [2, 2, 3, 4, 5, 5], [2, 2, F(5, 2), F(9, 2), 5, 5], True, False)]:
        out.append(inst('curvegrid p%d knots edited in place between two evaluations %s normalize_kv=%s' % (p, 'rat' if rational else 'nonrat', normalize), h_curve_grid_after_knot_edit,
                        p=p, kv=kv, kv2=kv2, dim=2, rational=rational, ss=5, normalize=normalize))
    for rational in (False, True):
        out.append(inst('curve p2 after a rejected ragged set_ctrlpts %s' % ('rat' if rational else 'nonrat'), h_after_rejected_ctrlpts, p=2, kv=fam.pattern(2, (1,)), dim=3, rational=rational))
    out.append(inst('curvegrid p2 domain[2,5] ss4', h_curve_grid, p=2, kv=fam.pattern(2, (1,), 2, 5), dim=2, rational=True, ss=4))
    # surfaces
    surf = [((1, 2), ((1,), ())), ((2, 1), ((), (1,))), ((2, 2), ((1,), (2,))), ((3, 2), ((), (1,)))]
    if not quick:
        surf += [((2, 3), ((1, 1), (1,))), ((3, 3), ((1,), (1,))), ((1, 1), ((1, 1), (1,))), ((2, 2), ((2, 1), (1, 2))), ((4, 2), ((1,), (2,))), ((3, 3), ((2, 1), (3,))), ((1, 4), ((1, 1, 1), ()))]
    for (pu, pv), (mu, mv) in surf:
        for rational in (False, True):
            kvu, kvv = fam.pattern(pu, mu), fam.pattern(pv, mv)
            out.append(inst('surface p%d,%d m%s,%s %s' % (pu, pv, mu, mv, 'rat' if rational else 'nonrat'), h_surface, timeout=600,
                            min_paths=(_spans(kvu, pu) + 1) * (_spans(kvv, pv) + 1),
                            pu=pu, pv=pv, kvu=kvu, kvv=kvv, dim=3, rational=rational))
    out.append(inst('surface p1,2 domain[-1,1]x[-2,3] rat', h_surface, timeout=600, pu=1, pv=2, kvu=fam.pattern(1, (1,), -1, 1), kvv=fam.pattern(2, (1,), -2, 3), dim=3, rational=True))
    out.append(inst('surfgrid p1,2 domain[-1,1]x[-2,3] ss3x2', h_surface_grid, timeout=600, pu=1, pv=2, kvu=fam.pattern(1, (1,), -1, 1), kvv=fam.pattern(2, (1,), -2, 3), dim=3, rational=False, ssu=3, ssv=2))
    out.append(inst('volume p(1,1,2) domains with 0 inside', h_volume, timeout=900, degs=(1, 1, 2), kvs=[fam.pattern(1, (), -1, 1), fam.pattern(1, (1,), -1, 2), fam.pattern(2, (), -3, 1)], dim=3, rational=False))
    out.append(inst('surface p2,1 unclamped-u rat', h_surface, timeout=600, pu=2, pv=1, kvu=fam.unclamped_uniform(2, 4), kvv=fam.pattern(1, (1,)), dim=3, rational=True))
    out.append(inst('surface p1,2 unclamped-v nonrat', h_surface, timeout=600, pu=1, pv=2, kvu=fam.pattern(1, ()), kvv=fam.unclamped_unit(2, 4), dim=3, rational=False))
    out.append(inst('volume p(1,1,2) unclamped-w nonrat', h_volume, timeout=900, degs=(1, 1, 2), kvs=[fam.pattern(1, ()), fam.pattern(1, (1,)), fam.unclamped_unit(2, 4)], dim=3, rational=False))
    out.append(inst('surface p2,1 domain[2,5]x[0,1] rat', h_surface, timeout=600, pu=2, pv=1, kvu=fam.pattern(2, (1,), 2, 5), kvv=fam.pattern(1, (1,)), dim=3, rational=True))
    for (pu, pv), (mu, mv), (ssu, ssv) in ([((1, 2), ((1,), ()), (2, 3)), ((2, 2), ((1,), (1,)), (4, 3))] if quick else
                                           [((1, 2), ((1,), ()), (2, 3)), ((2, 2), ((1,), (1,)), (4, 3)), ((3, 2), ((1,), (1, 1)), (5, 7)), ((2, 3), ((), (1,)), (6, 2))]):
        for rational in (False, True):
            out.append(inst('surfgrid p%d,%d ss%dx%d %s' % (pu, pv, ssu, ssv, 'rat' if rational else 'nonrat'), h_surface_grid, timeout=600,
                            pu=pu, pv=pv, kvu=fam.pattern(pu, mu), kvv=fam.pattern(pv, mv), dim=3, rational=rational, ssu=ssu, ssv=ssv))
    # volumes
    vols = [((1, 1, 2), ((), (1,), ())), ((2, 1, 1), ((1,), (), ()))]
    if not quick:
        vols += [((2, 2, 2), ((), (), (1,))), ((1, 2, 1), ((1,), (1,), (1,))), ((3, 1, 2), ((1,), (), ())), ((1, 1, 3), ((), (1,), (2,)))]
    for degs3, ms in vols:
        for rational in (False, True):
            kvs = [fam.pattern(d, m) for d, m in zip(degs3, ms)]
            out.append(inst('volume p%s m%s %s' % (degs3, ms, 'rat' if rational else 'nonrat'), h_volume, timeout=900,
                            degs=degs3, kvs=kvs, dim=3, rational=rational))
    out.append(inst('volgrid p(1,2,1) w-interior-knot ss(2,2,3)', h_volume_grid, timeout=900, degs=(1, 2, 1),
                    kvs=[fam.pattern(1, ()), fam.pattern(2, ()), fam.pattern(1, (1,))], dim=3, rational=False, ss=(2, 2, 3)))
    out.append(inst('volgrid p(2,1,2) u-interior-knot ss(3,2,2)', h_volume_grid, timeout=900, degs=(2, 1, 2),
                    kvs=[fam.pattern(2, (1,)), fam.pattern(1, (1,)), fam.pattern(2, ())], dim=3, rational=False, ss=(3, 2, 2)))
    out.append(inst('surfgrid p1,2 v-interior ss3x2', h_surface_grid, timeout=600, pu=1, pv=2, kvu=fam.pattern(1, (1,)), kvv=fam.pattern(2, (1,)), dim=3, rational=False, ssu=3, ssv=2))
    out.append(inst('volgrid p(1,1,2) ss(2,3,2) rat', h_volume_grid, timeout=900, degs=(1, 1, 2),
                    kvs=[fam.pattern(1, ()), fam.pattern(1, (1,)), fam.pattern(2, ())], dim=3, rational=True, ss=(2, 3, 2)))
    return out
