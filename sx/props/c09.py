"""C09 - weights, weighted and unweighted control points stay mutually consistent."""
from fractions import Fraction as F
from itertools import permutations, product

from .. import geo, shapes
from ..shapes import spec, spec_name
from ..run import inst

PROPERTY = 'C09'
ASSUMPTIONS = ['weights positive (symbolic)', 'grid generator: grid sizes concrete, weights symbolic']
OUTSIDE = ['nets larger than 3x4x2', 'grid sizes > 4', 'setter histories longer than 3']
BOUNDS = {'quick': 'NURBS curve(4)/surface(2x3)/volume(2x2x3): all setter sequences of length <= 3 over {ctrlpts, weights, ctrlptsw}; helper conversions; GridWeighted 1x2..3x2 divisions; conversions; weight scaling; rejected weight assignments on the weighted grid',
          'thorough': 'same with larger nets and grid sizes up to 4'}


def _n(obj):
    n = 1
    for s in shapes.sizes(obj):
        n *= s
    return n


def _check_views(cx, name, obj, P, W):
    cx.eq(name + '.ctrlpts', [list(p) for p in obj.ctrlpts], P)
    cx.eq(name + '.weights', list(obj.weights), W)
    cx.eq(name + '.ctrlptsw', [list(p) for p in obj.ctrlptsw], [[x * w for x in p] + [w] for p, w in zip(P, W)])


def h_setters(cx, sp, seq, check_each=True):
    obj, info = shapes.build(cx, sp)
    P, W = [list(p) for p in info['P']], list(info['W'])
    n = _n(obj)
    if check_each:
        _check_views(cx, 'initial', obj, P, W)
    for i, op in enumerate(seq):
        if op == 'ctrlpts':
            Q = cx.points('Q%d_' % i, n, sp['dim'])
            obj.ctrlpts = Q
            P = [list(q) for q in Q]
        elif op == 'weights':
            V = cx.reals('V%d_' % i, n, positive=True)
            obj.weights = V
            W = list(V)
        elif op == 'ctrlptsw':
            Q = cx.points('Q%d_' % i, n, sp['dim'])
            V = cx.reals('V%d_' % i, n, positive=True)
            obj.ctrlptsw = [[x * w for x in q] + [w] for q, w in zip(Q, V)]
            P, W = [list(q) for q in Q], list(V)
        elif op == 'set_ctrlpts':
            Q = cx.points('Q%d_' % i, n, sp['dim'])
            V = cx.reals('V%d_' % i, n, positive=True)
            obj.set_ctrlpts([[x * w for x in q] + [w] for q, w in zip(Q, V)], *(shapes.sizes(obj) if obj.pdimension > 1 else []))
            P, W = [list(q) for q in Q], list(V)
        elif op == 'read':
            pass
        if check_each or i == len(seq) - 1:
            _check_views(cx, 'after%d_%s' % (i, op), obj, P, W)
    # round trips through the views
    obj.ctrlptsw = [list(p) for p in obj.ctrlptsw]
    _check_views(cx, 'roundtrip_ctrlptsw', obj, P, W)
    obj.ctrlpts = [list(p) for p in obj.ctrlpts]
    _check_views(cx, 'roundtrip_ctrlpts', obj, P, W)
    obj.weights = list(obj.weights)
    _check_views(cx, 'roundtrip_weights', obj, P, W)


def h_caller_lists(cx, sp):
    """the lists handed to the setters stay the caller's: changing them afterwards must not change the shape's views"""
    obj, info = shapes.build(cx, sp)
    n = _n(obj)
    P = [list(p) for p in info['P']]
    V = cx.reals('V', n, positive=True)
    mine = list(V)
    obj.weights = mine
    mine[0] = mine[0] + 1          # the caller re-uses its working list
    mine[-1] = mine[-1] + 2
    _check_views(cx, 'after_weights_list_reused', obj, P, list(V))
    Q = cx.points('Q', n, sp['dim'])
    obj.ctrlpts = [list(q) for q in Q]
    _check_views(cx, 'after_ctrlpts', obj, [list(q) for q in Q], list(V))


def h_helpers(cx, n, dim, su=None):
    C = geo.M('compatibility')
    P = cx.points('P', n, dim)
    W = cx.reals('w', n, positive=True)
    pw = [[x * w for x in p] + [w] for p, w in zip(P, W)]
    xyzw = [list(p) + [w] for p, w in zip(P, W)]
    cx.eq('combine', C.combine_ctrlpts_weights(P, W), pw)
    cx.eq('combine_default', C.combine_ctrlpts_weights(P), [list(p) + [1] for p in P])
    sp_, sw_ = C.separate_ctrlpts_weights(pw)
    cx.eq('separate.points', sp_, P)
    cx.eq('separate.weights', sw_, W)
    cx.eq('separate(combine)', C.separate_ctrlpts_weights(C.combine_ctrlpts_weights(P, W)), [P, W])
    cx.eq('generate_ctrlptsw', C.generate_ctrlptsw(xyzw), pw)
    cx.eq('generate_ctrlpts_weights', C.generate_ctrlpts_weights(pw), xyzw)
    cx.eq('inverse_1', C.generate_ctrlpts_weights(C.generate_ctrlptsw(xyzw)), xyzw)
    cx.eq('inverse_2', C.generate_ctrlptsw(C.generate_ctrlpts_weights(pw)), pw)
    if su:
        sv = n // su
        g_xyzw = [[xyzw[j + sv * i] for j in range(sv)] for i in range(su)]
        g_pw = [[pw[j + sv * i] for j in range(sv)] for i in range(su)]
        cx.eq('generate_ctrlptsw2d', C.generate_ctrlptsw2d(g_xyzw), g_pw)
        cx.eq('generate_ctrlpts2d_weights', C.generate_ctrlpts2d_weights(g_pw), g_xyzw)
        cx.eq('inverse_2d', C.generate_ctrlpts2d_weights(C.generate_ctrlptsw2d(g_xyzw)), g_xyzw)


def h_grid(cx, nu, nv, scenario):
    """CPGen.GridWeighted: every grid point multiplied by ITS OWN weight; weight setter takes effect"""
    G = geo.M('CPGen')
    g = G.GridWeighted(cx.const(3), cx.const(2))
    g.generate(nu, nv)
    npts = (nu + 1) * (nv + 1)
    cx.check('len', len(g) == npts, 'len %d' % len(g))
    W = cx.reals('w', npts, positive=True)
    plain = [[[cx.const(F(3 * i, nu)), cx.const(F(2 * j, nv)), cx.const(0)] for j in range(nv + 1)] for i in range(nu + 1)]

    def expect(ws):
        return [[[c * ws[j + (nv + 1) * i] for c in plain[i][j]] + [ws[j + (nv + 1) * i]] for j in range(nv + 1)] for i in range(nu + 1)]
    if scenario == 'set_then_read':
        g.weight = list(W)
        cx.eq('grid', g.grid, expect(W))
    elif scenario == 'read_set_read':
        first = g.grid
        cx.eq('default_unit_weights', first, expect([1] * npts))
        g.weight = list(W)
        cx.eq('grid_after_weight', g.grid, expect(W))
    elif scenario == 'set_twice':
        g.weight = list(W)
        g.grid
        V = cx.reals('v', npts, positive=True)
        g.weight = list(V)
        cx.eq('grid_after_second_weight', g.grid, expect(V))
        cx.eq('weight_view', list(g.weight), V)
    elif scenario == 'regenerate':
        first = g.grid                       # default weights, cached
        g.generate(nv + 1, nu)
        n2 = (nv + 2) * (nu + 1)
        second = g.grid
        cx.check('regenerated_shape', len(second) == nv + 2 and all(len(r) == nu + 1 for r in second), '%d rows' % len(second))
        cx.eq('regenerated_grid', second, [[[cx.const(F(3 * i, nv + 1)), cx.const(F(2 * j, nu)), cx.const(0), 1] for j in range(nu + 1)] for i in range(nv + 2)])
        return
    elif scenario == 'bumps_after_read':
        # (2x2 divisions, base_extent 1: the only admissible bump centre is the middle point)
        g.weight = list(W)
        g.grid
        h = cx.real('h')
        g.bumps(1, bump_height=h, base_extent=1)
        exp = expect(W)
        w_mid = W[1 + (nv + 1) * 1]
        exp[1][1] = [exp[1][1][0], exp[1][1][1], h * w_mid, w_mid]
        cx.eq('grid_after_bumps', g.grid, exp)
        return
    elif scenario == 'reset':
        g.weight = list(W)
        g.grid
        g.reset()
        g.generate(nu, nv)
        cx.eq('grid_after_reset', g.grid, expect([1] * npts))
        return
    elif scenario == 'rejected':
        # assignments that are rejected (no positive entry, wrong length, non-positive scalar) leave everything as it was
        g.weight = list(W)
        g.grid
        for bad in ([-1 - i for i in range(npts)], [1] * (npts + 1), -2, 0, [0] * npts):
            try:
                g.weight = bad
                cx.fail('rejected_%s' % (str(bad)[:20],), 'assignment was accepted')
            except (ValueError, TypeError):
                pass
        cx.eq('weights_after_rejections', list(g.weight), W)
        cx.eq('grid_after_rejections', g.grid, expect(W))
        h = cx.real('h')
        if nu == 2 and nv == 2:
            g.bumps(1, bump_height=h, base_extent=1)
            exp = expect(W)
            w_mid = W[1 + (nv + 1) * 1]
            exp[1][1] = [exp[1][1][0], exp[1][1][1], h * w_mid, w_mid]
            cx.eq('grid_after_rejections_and_bumps', g.grid, exp)
        return
    elif scenario == 'scalar':
        k = cx.real('k', positive=True)
        g.weight = k
        cx.eq('grid_scalar', g.grid, expect([k] * npts))
    # the weighted grid can be fed to a NURBS surface: its views follow
    if scenario == 'set_then_read':
        N = geo.M('NURBS')
        s = N.Surface()
        s.degree_u, s.degree_v = 1, 1
        s.ctrlpts2d = g.grid
        flat = [plain[i][j] for i in range(nu + 1) for j in range(nv + 1)]
        cx.eq('surface.ctrlpts', [list(p) for p in s.ctrlpts], flat)
        cx.eq('surface.weights', list(s.weights), W)


def h_convert(cx, sp):
    conv = geo.M('convert')
    obj, info = shapes.build(cx, sp)      # non-rational
    nb = conv.bspline_to_nurbs(obj)
    cx.check('rational', nb.rational is True)
    cx.eq('unit_weights', list(nb.weights), [1] * len(nb.ctrlpts))
    prm = shapes.sym_params(cx, obj)
    cx.eq('to_nurbs.point', shapes.evaluate(nb, prm), shapes.evaluate(obj, prm))
    back = conv.nurbs_to_bspline(nb)
    cx.check('non_rational', back.rational is False)
    cx.eq('back.ctrlpts', [list(p) for p in back.ctrlpts], [list(p) for p in obj.ctrlpts])
    cx.eq('back.point', shapes.evaluate(back, prm), shapes.evaluate(obj, prm))
    cx.eq('back.knots', shapes.knotvectors(back), shapes.knotvectors(obj))
    cx.eq('back.sizes', shapes.sizes(back), shapes.sizes(obj))


def h_to_bspline_rational(cx, sp):
    """nurbs_to_bspline on a rational shape: whatever it returns must evaluate like the input
    (weights are either exactly 1 or differ from 1 by more than 1e-3)"""
    conv = geo.M('convert')
    obj, info = shapes.build(cx, sp)
    for w in info['W']:
        cx.assume(cx.any_of([w == 1, w - 1 > F(1, 1000), 1 - w > F(1, 1000)]))
    ref = shapes.clone(obj)
    res = conv.nurbs_to_bspline(obj)
    prm = shapes.sym_params(cx, ref)
    cx.eq('point', shapes.evaluate(res, prm), shapes.evaluate(ref, prm))
    cx.eq('input_unchanged', shapes.net(obj), shapes.net(ref))


def h_scale_weights(cx, sp):
    obj, info = shapes.build(cx, sp)
    ref = shapes.clone(obj)
    lam = cx.real('lam', positive=True)
    obj.weights = [w * lam for w in info['W']]
    prm = shapes.sym_params(cx, obj)
    cx.eq('point', shapes.evaluate(obj, prm), shapes.evaluate(ref, prm))
    cx.eq('ctrlpts_unchanged', [list(p) for p in obj.ctrlpts], [list(p) for p in ref.ctrlpts])


def instances(tier):
    out = []
    quick = tier == 'quick'
    specs = [spec('curve', (2,), ((1,),), rational=True), spec('surface', (1, 2), ((), ()), rational=True), spec('volume', (1, 1, 2), ((), (), ()), rational=True)]
    if not quick:
        specs += [spec('curve', (3,), ((1, 1),), rational=True, dim=3), spec('surface', (2, 2), ((), (1,)), rational=True), spec('volume', (1, 2, 1), ((1,), (), ()), rational=True)]
    ops = ('ctrlpts', 'weights', 'ctrlptsw')
    seqs = [s for r in (1, 2, 3) for s in product(ops, repeat=r)]
    seqs += [('set_ctrlpts', 'weights'), ('weights', 'set_ctrlpts', 'ctrlpts'), ('read', 'weights', 'read', 'ctrlpts')]
    for sp in specs:
        for seq in seqs:
            if quick and sp['kind'] == 'volume' and len(seq) > 2:
                continue
            out.append(inst('%s setters %s' % (spec_name(sp), '>'.join(seq)), h_setters, timeout=600, sp=sp, seq=seq))
        out.append(inst('%s scale_weights' % spec_name(sp), h_scale_weights, timeout=900, sp=sp))
        out.append(inst('%s caller lists' % spec_name(sp), h_caller_lists, timeout=900, sp=sp))
        out.append(inst('%s nurbs_to_bspline' % spec_name(sp), h_to_bspline_rational, timeout=900, sp=sp))
        for seq in [('ctrlptsw', 'ctrlpts'), ('set_ctrlpts', 'ctrlpts'), ('set_ctrlpts', 'weights'), ('ctrlptsw', 'weights', 'ctrlpts'), ('weights', 'ctrlpts'),
                    ('ctrlpts', 'weights'), ('ctrlptsw', 'ctrlptsw', 'ctrlpts'), ('ctrlpts', 'ctrlpts'), ('weights', 'weights', 'ctrlpts')]:
            out.append(inst('%s setters-noreads %s' % (spec_name(sp), '>'.join(seq)), h_setters, timeout=600, sp=sp, seq=seq, check_each=False))
    for n, dim, su in ((4, 2, None), (6, 3, 2), (6, 3, 3), (5, 1, None)):
        out.append(inst('helpers n%d dim%d su%s' % (n, dim, su), h_helpers, n=n, dim=dim, su=su))
    grids = [(1, 2), (2, 1), (2, 3), (3, 2)] + ([] if quick else [(4, 3), (2, 4), (1, 1)])
    for nu, nv in grids:
        for sc in ('set_then_read', 'read_set_read', 'set_twice', 'scalar', 'regenerate', 'reset'):
            out.append(inst('gridweighted %dx%d %s' % (nu, nv, sc), h_grid, nu=nu, nv=nv, scenario=sc))
    out.append(inst('gridweighted 2x2 bumps_after_read', h_grid, nu=2, nv=2, scenario='bumps_after_read'))
    out.append(inst('gridweighted 2x2 rejected', h_grid, nu=2, nv=2, scenario='rejected'))
    out.append(inst('gridweighted 1x2 rejected', h_grid, nu=1, nv=2, scenario='rejected'))
    for sp in (spec('curve', (2,), ((1,),)), spec('surface', (1, 2), ((1,), ())), spec('volume', (1, 1, 2), ((), (1,), ()))):
        out.append(inst('%s convert' % spec_name(sp), h_convert, timeout=900, sp=sp))
    return out
