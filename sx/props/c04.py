"""C04 - knot insertion never changes the shape."""
from fractions import Fraction as F

from .. import geo, shapes
from ..shapes import spec, spec_name
from ..run import inst
from .. import families as fam

PROPERTY = 'C04'
ASSUMPTIONS = [
    'inserted parameter lies strictly inside the domain and is either equal to a knot or farther than 1e-5 from every knot (snap zone of find_multiplicity / find_span, DESIGN 2.5)',
    'weights positive',
]
OUTSIDE = ['degrees > 3 (quick) / 4 (thorough)', 'histories longer than 2 (quick) / 3 (thorough) insertions', 'unclamped knot vectors']
BOUNDS = {'quick': 'curves p<=3, surfaces degrees<=2 (u,v,uv), volumes degrees<=2 one direction; num 1..p-s and p-s+1 (rejection); 2-step histories; shifted knot vectors (symbolic offset); same insertion on a sibling shape first; tuple knot vectors; one num list re-used between calls; doubled point object at helper level',
          'thorough': 'curves p<=4, surfaces to (3,2), volumes all directions, 3-step histories'}


def _insert(cx, obj, xs, nums, via):
    ops = geo.M('operations')
    if via == 'operations-own-lists':
        ops.insert_knot(obj, xs, nums)          # the caller's own list objects (re-used between calls)
    elif via == 'operations':
        ops.insert_knot(obj, list(xs), list(nums))
    else:
        if obj.pdimension == 1:
            obj.insert_knot(xs[0], num=nums[0])
        elif obj.pdimension == 2:
            obj.insert_knot(u=xs[0], v=xs[1], num_u=nums[0], num_v=nums[1])
        else:
            obj.insert_knot(u=xs[0], v=xs[1], w=xs[2], num_u=nums[0], num_v=nums[1], num_w=nums[2])


def h_insert(cx, sp, steps, via='operations', after_sibling=False):
    """steps: list of {dir: num}; every step gets its own symbolic parameter(s)"""
    GE = geo.M('exceptions').GeomdlException
    obj, info = shapes.build(cx, sp)
    ref = shapes.clone(obj)
    pd = obj.pdimension
    for si, step in enumerate(steps):
        before = shapes.snapshot(obj)
        xs = [None] * pd
        nums = [0] * pd
        admissible = True
        single = len(step) == 1
        expect = {}
        for d, num in sorted(step.items()):
            kv = before['kvs'][d]
            p = before['degs'][d]
            lo, hi = kv[p], kv[len(kv) - p - 1]
            x = cx.real('x%d%s' % (si, shapes.DIRS[d]), param=True)
            cx.assume(x > lo, check=False)
            cx.assume(x < hi, check=False)
            cx.snap(x, kv)
            s = shapes.multiplicity(cx, x, kv)
            xs[d], nums[d] = x, num
            if num > p - s:
                admissible = False
            j = shapes.count_le(cx, x, kv)
            expect[d] = kv[:j] + [x] * num + kv[j:]
        if not admissible:
            if not single:
                cx.assume(False)      # multi-direction steps: only admissible parameter combinations are claimed
            if via == 'operations':
                cx.expect_raises('step%d.rejected' % si, GE, _insert, cx, obj, xs, nums, via)
            else:
                _insert(cx, obj, xs, nums, via)        # wrapper prints the error and returns
            shapes.same_state(cx, 'step%d.unchanged' % si, obj, before)
            continue
        if after_sibling and si == 0:
            # the same insertion (same parameter values) was done on another shape of the same kind just before
            shapes.prime_with_sibling(cx, sp, lambda sib, _i: _insert(cx, sib, xs, nums, via))
        _insert(cx, obj, xs, nums, via)
        after = shapes.snapshot(obj)
        for d in range(pd):
            if d in expect:
                cx.eq('step%d.kv_%s' % (si, shapes.DIRS[d]), after['kvs'][d], expect[d])
                cx.check('step%d.size_%s' % (si, shapes.DIRS[d]), after['sizes'][d] == before['sizes'][d] + step[d],
                         'size %s -> %s, inserted %d' % (before['sizes'][d], after['sizes'][d], step[d]))
            else:
                cx.eq('step%d.kv_%s_untouched' % (si, shapes.DIRS[d]), after['kvs'][d], before['kvs'][d])
                cx.check('step%d.size_%s_untouched' % (si, shapes.DIRS[d]), after['sizes'][d] == before['sizes'][d])
        cx.eq('step%d.degrees' % si, after['degs'], before['degs'])
        tot = 1
        for s_ in after['sizes']:
            tot *= s_
        cx.check('step%d.net_len' % si, len(after['net']) == tot, 'len(ctrlpts)=%d sizes=%s' % (len(after['net']), after['sizes']))
    prm = shapes.sym_params(cx, ref)
    cx.eq('point', shapes.evaluate(obj, prm), shapes.evaluate(ref, prm))


def h_reused_lists(cx, sp):
    """function-level insert_knot called twice with ONE `num` list object: first v only (u skipped with None), then u only"""
    ops = geo.M('operations')
    obj, info = shapes.build(cx, sp)
    ref = shapes.clone(obj)
    before = shapes.snapshot(obj)
    xs = []
    for d in range(2):
        kv, p = before['kvs'][d], before['degs'][d]
        x = cx.real('x' + shapes.DIRS[d], param=True)
        cx.assume(x > kv[p], check=False)
        cx.assume(x < kv[len(kv) - p - 1], check=False)
        cx.snap(x, kv)
        if shapes.multiplicity(cx, x, kv) + 1 > p:
            cx.assume(False)
        xs.append(x)
    num = [1, 1]
    ops.insert_knot(obj, [None, xs[1]], num)
    ops.insert_knot(obj, [xs[0], None], num)
    after = shapes.snapshot(obj)
    for d in range(2):
        cx.check('size_%s' % shapes.DIRS[d], after['sizes'][d] == before['sizes'][d] + 1, 'size %s -> %s' % (before['sizes'][d], after['sizes'][d]))
    prm = shapes.sym_params(cx, ref)
    cx.eq('point', shapes.evaluate(obj, prm), shapes.evaluate(ref, prm))


def h_insert_helper(cx, p, kv, num, dim=2, give_span=False, alias=False):
    """helpers.knot_insertion / knot_insertion_kv called directly (default s / span arguments)"""
    H = geo.M('helpers')
    n = len(kv) - p - 1
    K = cx.consts(kv)
    P = cx.points('P', n, dim)
    x = cx.real('x', param=True)
    cx.assume(x > K[p], check=False)
    cx.assume(x < K[n], check=False)
    cx.snap(x, K)
    s = shapes.multiplicity(cx, x, K)
    if num > p - s:
        cx.assume(False)
    span = H.find_span_linear(p, K, n, x)
    kw = {'num': num}
    if give_span:
        kw.update({'s': s, 'span': span})
    arg_P = [list(q) for q in P]
    if alias:
        # a doubled control point given as ONE list object appearing twice
        P = [P[0], P[1], P[1]] + [list(q) for q in P[3:]]
        arg_P = [list(q) for q in P]
        arg_P[2] = arg_P[1]
    new_P = H.knot_insertion(p, list(K), arg_P, x, **kw)
    new_kv = H.knot_insertion_kv(list(K), x, span, num)
    cx.eq('input_unmodified', arg_P, P)
    cx.check('sizes', len(new_P) == n + num and len(new_kv) == len(kv) + num, 'len(ctrlpts)=%d len(kv)=%d' % (len(new_P), len(new_kv)))
    c0 = geo.make_curve(cx, p, K, P)
    c1 = geo.make_curve(cx, p, list(new_kv), [list(q) for q in new_P])
    u = cx.real('u', lo=K[p], hi=K[n], param=True)
    cx.eq('point', c1.evaluate_single(u), c0.evaluate_single(u))


def _steps_name(steps):
    return '+'.join(''.join('%s%d' % (shapes.DIRS[d], n) for d, n in sorted(s.items())) for s in steps)


def instances(tier):
    out = []
    quick = tier == 'quick'

    def add(sp, steps, via='operations', timeout=600, after_sibling=False):
        nm = '%s ins[%s] %s%s' % (spec_name(sp), _steps_name(steps), via, ' after a sibling' if after_sibling else '')
        if any(i.name == nm for i in out):
            return
        out.append(inst(nm, h_insert, timeout=timeout, sp=sp, steps=steps, via=via, after_sibling=after_sibling))

    # curves
    for p in ((1, 2, 3) if quick else (1, 2, 3, 4, 5)):
        for m in ([(), (1,), (p,)] + ([(2,), (1, 2)] if p >= 2 else []) + ([] if quick else [(1, 1, 1), (p - 1, 1) if p >= 2 else (1, 1)])):
            for rational in (False, True):
                sp = spec('curve', (p,), (m,), rational=rational, dim=2 if rational else 3)
                for num in range(1, p + 2):
                    if quick and rational and num not in (1, p):
                        continue
                    add(sp, [{0: num}])
        sp = spec('curve', (p,), ((1,),), rational=True)
        add(sp, [{0: 1}], via='method')
        add(sp, [{0: p + 1}], via='method')
        # a rejected insertion must not poison later valid ones
        add(spec('curve', (p,), ((1,),), rational=False), [{0: p + 1}, {0: 1}])
        add(spec('curve', (p,), ((1,),), rational=True), [{0: p + 1}, {0: 1}], via='method')
        # histories: independent symbolic parameters
        add(spec('curve', (p,), ((1,),), rational=False), [{0: 1}, {0: 1}])
        if p >= 2:
            add(spec('curve', (p,), ((),), rational=True), [{0: 1}, {0: p - 1}])
        if not quick:
            add(spec('curve', (p,), ((1,),), rational=False), [{0: 1}, {0: 1}, {0: 1}], timeout=1200)
    add(spec('curve', (2,), ((2,),), rational=False, tuple_kv=True), [{0: 1}])
    add(spec('surface', (1, 2), ((1,), (1,)), rational=True, tuple_kv=True), [{0: 1, 1: 2}], timeout=1200)
    out.append(inst('surface p2,1 insert_knot twice with one num list', h_reused_lists, timeout=1200, sp=spec('surface', (2, 1), ((1,), (1,)), rational=False)))
    out.append(inst('surface p1,2 rat insert_knot twice with one num list', h_reused_lists, timeout=1200, sp=spec('surface', (1, 2), ((), (1,)), rational=True)))
    for p_ in (2, 3):
        out.append(inst('helper knot_insertion p%d doubled point object' % p_, h_insert_helper, timeout=600, p=p_, kv=fam.pattern(p_, (1, 1)), num=1, alias=True))
        out.append(inst('helper knot_insertion p%d doubled point object num%d' % (p_, p_), h_insert_helper, timeout=600, p=p_, kv=fam.pattern(p_, (1, 1)), num=p_, alias=True))
    # knot vectors moved by a symbolic offset of any magnitude
    add(spec('curve', (2,), ((1, 1),), rational=False, shifted=True), [{0: 1}])
    add(spec('curve', (3,), ((2,),), rational=True, shifted=True), [{0: 2}])
    add(spec('surface', (1, 2), ((1,), (1,)), rational=False, shifted=True), [{0: 1, 1: 1}], timeout=1200)
    # the same insertion was applied to another shape first (memoised helpers, module state)
    for sp_, st_, via_ in [(spec('curve', (2,), ((1,),), rational=False), [{0: 1}], 'operations'), (spec('curve', (3,), ((2,),), rational=True), [{0: 1}], 'method'),
                           (spec('curve', (2,), ((1, 1),), rational=True), [{0: 2}], 'operations'),
                           (spec('curve', (3,), ((1, 1, 1),), rational=False), [{0: 1}], 'operations'), (spec('surface', (2, 1), ((1, 1), ()), rational=False), [{0: 1}], 'operations'),
                           (spec('surface', (1, 2), ((1,), ()), rational=False), [{1: 1}], 'operations'), (spec('surface', (2, 1), ((), (1,)), rational=False), [{0: 1, 1: 1}], 'operations'),
                           (spec('volume', (1, 1, 2), ((), (1,), ()), rational=False), [{2: 1}], 'operations')]:
        add(sp_, st_, via=via_, timeout=1200, after_sibling=True)
    add(spec('curve', (2,), ((1,),), rational=True, lo=2, hi=5), [{0: 2}])
    add(spec('curve', (2,), ((1, 1),), rational=False, lo=-1, hi=1), [{0: 1}])
    add(spec('curve', (3,), ((1,),), rational=True, lo=-2, hi=3), [{0: 2}], via='method')
    sp0 = spec('surface', (2, 1), ((1,), (1,)), rational=False, doms=[(-1, 1), (-2, 3)])
    add(sp0, [{0: 1}])
    add(sp0, [{1: 1}])
    add(sp0, [{0: 1, 1: 1}], timeout=900)
    add(sp0, [{1: 1}], via='method')
    spv = spec('volume', (1, 1, 2), ((), (1,), ()), rational=False, doms=[(-1, 1), (-1, 2), (-3, 1)])
    for d in range(3):
        add(spv, [{d: 1}], timeout=1200)
    # several insertions in ONE call on volumes (rows of points are blended in place more than once)
    add(spec('volume', (1, 1, 2), ((), (1,), ()), rational=False), [{2: 2}], timeout=1800)
    add(spec('volume', (2, 1, 1), ((), (), (1,)), rational=True), [{0: 2}], timeout=1800)
    add(spec('volume', (1, 2, 1), ((1,), (), ()), rational=False), [{1: 2}], timeout=1800)
    add(spec('volume', (1, 2, 1), ((1,), (), ()), rational=False), [{1: 3}], timeout=1800)
    for p in (1, 2, 3):
        for m in sorted(set([(1,), (1, 1), (p, 1)])):
            for num in sorted(set([1, p])):
                for gs in (False, True):
                    out.append(inst('helper knot_insertion p%d m%s num%d %s' % (p, m, num, 'given-span' if gs else 'default-span'), h_insert_helper, timeout=600,
                                    p=p, kv=fam.pattern(p, m), num=num, give_span=gs))
    # surfaces
    surf = [((1, 2), ((1,), ())), ((2, 1), ((), (1,))), ((2, 2), ((1,), (2,)))]
    if not quick:
        surf += [((3, 2), ((1,), (1,))), ((2, 3), ((), (1, 1))), ((3, 3), ((1,), (2,))), ((1, 3), ((1, 1), (3,)))]
    for degs, ms in surf:
        for rational in (False, True):
            sp = spec('surface', degs, ms, rational=rational)
            add(sp, [{0: 1}])
            add(sp, [{1: 1}])
            add(sp, [{0: degs[0]}])
            add(sp, [{1: degs[1]}])
            add(sp, [{0: degs[0] + 1}])
            add(sp, [{1: degs[1] + 1}])
            if not (quick and rational and degs == (2, 2)):
                add(sp, [{0: 1, 1: 1}], timeout=900)
    add(spec('surface', (1, 2), ((1,), ()), rational=True), [{0: 1, 1: 2}], via='method', timeout=900)
    add(spec('surface', (2, 1), ((), (1,)), rational=False), [{0: 1}, {1: 1}], timeout=900)
    add(spec('surface', (2, 1), ((), (1,)), rational=False), [{1: 2}, {0: 1}, {1: 1}], timeout=900)
    add(spec('surface', (1, 2), ((1,), ()), rational=True), [{0: 2}, {1: 1}], via='method', timeout=900)
    if not quick:
        add(spec('surface', (2, 2), ((1,), (1,)), rational=False), [{0: 2}, {1: 1}, {0: 1}], timeout=1800)
    # volumes (sizes pairwise different)
    vols = [((1, 1, 2), ((1,), (), ())), ((2, 1, 1), ((), (1,), (1, 1)))] + ([] if quick else [((2, 2, 1), ((1,), (2,), ())), ((1, 3, 1), ((), (1,), (1,)))])
    for degs, ms in vols:
        for rational in ((False, True) if not quick else (False,)):
            sp = spec('volume', degs, ms, rational=rational)
            for d in range(3):
                add(sp, [{d: 1}], timeout=1200)
                if degs[d] >= 2:
                    add(sp, [{d: 2}], timeout=1200)
                add(sp, [{d: degs[d] + 1}], timeout=1200)
    add(spec('volume', (1, 1, 2), ((1,), (), ()), rational=True), [{2: 2}], timeout=1200)
    add(spec('volume', (1, 1, 2), ((1,), (), ()), rational=False), [{0: 1, 1: 1, 2: 1}], via='method', timeout=1800)
    return out
