"""C17 - results do not depend on configuration choices."""
import ast
import json
import os
import subprocess
import sys
import tempfile
import time
from fractions import Fraction as F

from .. import families as fam
from .. import geo, shapes
from ..shapes import spec, spec_name
from ..run import inst, VERIF, REPO

PROPERTY = 'C17'
ASSUMPTIONS = [
    'parameters equal to a knot or farther than 1e-5 from every knot (the binary search snaps the domain end within 1e-5)',
    'affine knot range k -> alpha*k + beta with alpha > 0 symbolic',
    'GEOMDL_CACHE_SIZE is a decimal string of 1..4 digits or unset',
    'num_procs in {2,4,8}: the worker pool is MODELLED in the symbolic run (core.SerialPool: order-preserving map, every task on a copy of its argument, result copied back, i.e. what pickling does); OS scheduling and worker-private module state are not symbolically executable and only exercised by the float replay of a counterexample, which uses real processes',
]
OUTSIDE = ['scheduling / worker-private state of real worker processes (pool model only)', 'render() with num_procs (needs a visualisation backend)', 'degrees > 3', 'cache sizes that are not decimal integers']
BOUNDS = {'quick': 'span function / evaluator / normalize_kv pairs on curves p<=3, surfaces degrees<=2, one volume; CrossHair on the lru_cache maxsize expressions; subprocess runs of a C04 instance under GEOMDL_CACHE_SIZE in {unset,1,16,1024}; num_procs in {2,4} x voxel padding and container tessellation (worker-pool model); knot vectors times a symbolic factor for the evaluator pair; forced second container tessellation',
          'thorough': 'more patterns, surfaces (3,2), derivative orders to 3'}


def _params(cx, info, sp, open_end=False):
    prm = []
    for d in range(len(sp['degs'])):
        K = info['K'][d]
        x = cx.real('uvw'[d], lo=K[sp['degs'][d]], hi=K[info['sizes'][d]], param=True)
        if open_end:
            cx.assume(x < K[info['sizes'][d]])
        if not sp.get('kscaled'):
            cx.snap(x, K)
        prm.append(x)
    return prm


def h_spanfunc(cx, sp, order=1):
    H = geo.M('helpers')
    a, info = shapes.build(cx, sp, find_span_func=H.find_span_linear)
    b, _ = shapes.build(cx, sp, find_span_func=H.find_span_binsearch)
    prm = _params(cx, info, sp)
    cx.eq('evaluate_single', shapes.evaluate(a, prm), shapes.evaluate(b, prm))
    if a.pdimension == 1:
        cx.eq('evaluate_list', a.evaluate_list([prm[0]]), b.evaluate_list([prm[0]]))
        cx.eq('derivatives', a.derivatives(prm[0], order), b.derivatives(prm[0], order))
    elif a.pdimension == 2:
        cx.eq('derivatives', a.derivatives(prm[0], prm[1], order), b.derivatives(prm[0], prm[1], order))


def h_evaluator(cx, sp, order):
    E = geo.M('evaluators')
    a, info = shapes.build(cx, sp)
    b, _ = shapes.build(cx, sp)
    b.evaluator = E.CurveEvaluator2() if a.pdimension == 1 else E.SurfaceEvaluator2()
    prm = _params(cx, info, sp, open_end=True)
    cx.eq('evaluate_single', shapes.evaluate(a, prm), shapes.evaluate(b, prm))
    if a.pdimension == 1:
        cx.eq('derivatives', a.derivatives(prm[0], order), b.derivatives(prm[0], order))
    else:
        da, db = a.derivatives(prm[0], prm[1], order), b.derivatives(prm[0], prm[1], order)
        for k in range(order + 1):
            for l in range(order + 1 - k):
                cx.eq('skl[%d][%d]' % (k, l), list(da[k][l]), list(db[k][l]))


def h_affine(cx, sp, order=1):
    """normalize_kv=True on raw knots alpha*k+beta  ==  normalize_kv=False evaluated at alpha*u+beta"""
    degs = sp['degs']
    nd = len(degs)
    alphas = [cx.real('alpha%d' % d, positive=True) for d in range(nd)]
    betas = [cx.real('beta%d' % d) for d in range(nd)]
    for al in alphas:
        cx.assume(al >= F(1, 100), check=False)
    sizes = [len(k) - d - 1 for k, d in zip(sp['kvs'], degs)]
    n = 1
    for s in sizes:
        n *= s
    P = cx.points('P', n, sp['dim'])
    W = cx.reals('w', n, positive=True) if sp['rational'] else None
    raw = [[al * cx.const(k) + be for k in kv] for kv, al, be in zip(sp['kvs'], alphas, betas)]

    def mk(norm):
        if sp['kind'] == 'curve':
            return geo.make_curve(cx, degs[0], raw[0], P, W, normalize_kv=norm)
        if sp['kind'] == 'surface':
            return geo.make_surface(cx, degs[0], degs[1], raw[0], raw[1], sizes[0], sizes[1], P, W, normalize_kv=norm)
        return geo.make_volume(cx, degs, raw, sizes, P, W, normalize_kv=norm)
    N = mk(True)
    R = mk(False)
    cx.eq('normalised_knots', shapes.knotvectors(N), [cx.consts(kv) for kv in sp['kvs']])
    cx.eq('raw_knots_kept', shapes.knotvectors(R), raw)
    us = []
    for d in range(nd):
        kv = sp['kvs'][d]
        u = cx.real('uvw'[d], lo=kv[degs[d]], hi=kv[sizes[d]], param=True)
        cx.assume(u < kv[sizes[d]])
        cx.snap(u, cx.consts(kv))
        us.append(u)
    rs = [al * u + be for al, u, be in zip(alphas, us, betas)]
    cx.eq('evaluate_single', shapes.evaluate(N, us), shapes.evaluate(R, rs))
    if nd == 1:
        dn, dr = N.derivatives(us[0], order), R.derivatives(rs[0], order)
        for k in range(order + 1):
            cx.eq('derivative[%d]' % k, list(dn[k]), [x * alphas[0] ** k for x in dr[k]])
    elif nd == 2:
        dn, dr = N.derivatives(us[0], us[1], order), R.derivatives(rs[0], rs[1], order)
        for k in range(order + 1):
            for l in range(order + 1 - k):
                cx.eq('skl[%d][%d]' % (k, l), list(dn[k][l]), [x * alphas[0] ** k * alphas[1] ** l for x in dr[k][l]])


def _two_surfaces(cx):
    out = []
    for i, sp in enumerate((spec('surface', (1, 1), ((), ()), rational=False), spec('surface', (1, 2), ((), ()), rational=True))):
        sizes = [len(k) - d - 1 for k, d in zip(sp['kvs'], sp['degs'])]
        P = cx.points('P%d_' % i, sizes[0] * sizes[1], 3)
        W = cx.reals('w%d_' % i, sizes[0] * sizes[1], positive=True) if sp['rational'] else None
        out.append(geo.make_surface(cx, sp['degs'][0], sp['degs'][1], cx.consts(sp['kvs'][0]), cx.consts(sp['kvs'][1]), sizes[0], sizes[1], P, W, normalize_kv=True))
    return out


def h_procs_tessellate(cx, num_procs, nsurf=2, again=False):
    """SurfaceContainer.tessellate(num_procs=k) == tessellate() (worker pool modelled by core.SerialPool)"""
    multi = geo.M('multi')
    surfs = _two_surfaces(cx)[:nsurf]

    def mesh(np_):
        mc = multi.SurfaceContainer()
        for s in surfs:
            mc.add(shapes.clone(s))
        mc.sample_size_u, mc.sample_size_v = (4, 5) if not again else (4, 6)
        if np_ == 1:
            mc.tessellate()
            if again:
                mc.tessellate(force=True, delta=False, vertex_spacing=2)
        else:
            mc.tessellate(num_procs=np_)
            if again:
                # a second, forced call with other options: honoured whatever the number of workers
                mc.tessellate(num_procs=np_, force=True, delta=False, vertex_spacing=2)
        return {'vertices': [list(v.data) for v in mc.vertices], 'vertex_ids': [v.id for v in mc.vertices],
                'faces': [list(f.data) for f in mc.faces], 'face_ids': [f.id for f in mc.faces],
                'evalpts': [list(p) for p in mc.evalpts], 'elements': len(mc)}
    a, b = mesh(1), mesh(num_procs)
    cx.check('mesh_nonempty', len(a['vertices']) >= 4 * nsurf and len(a['faces']) >= 2 * nsurf, '%d vertices %d faces' % (len(a['vertices']), len(a['faces'])))
    for k in sorted(a):
        if k in ('vertices', 'evalpts'):
            cx.eq(k, b[k], a[k])
        else:
            cx.check(k, b[k] == a[k], '%s differs: %s vs %s' % (k, str(b[k])[:80], str(a[k])[:80]))


def h_procs_voxelize(cx, num_procs, sz, tol=None):
    """voxelize(num_procs=k) == voxelize() (worker pool modelled by core.SerialPool)"""
    VX = geo.M('voxelize')
    B = geo.M('BSpline')
    z = cx.real('z', lo=F(1, 10), hi=F(9, 10))

    def run(np_):
        s = B.Surface()
        s.degree_u, s.degree_v = 1, 1
        s.set_ctrlpts([[0, 0, 0], [0, 1, 0], [1, 0, 1], [1, 1, z]], 2, 2)
        s.knotvector_u = [0, 0, 1, 1]
        s.knotvector_v = [0, 0, 1, 1]
        s.sample_size = 3
        kw = {} if tol is None else {'tol': cx.const(tol)}
        if np_ != 1:
            kw['num_procs'] = np_
        return VX.voxelize(s, grid_size=sz, **kw)
    (g1, f1), (g2, f2) = run(1), run(num_procs)
    cx.check('grid_size', len(g1) == sz[0] * sz[1] * sz[2] == len(f1))
    cx.eq('grid', [[list(c[0]), list(c[1])] for c in g2], [[list(c[0]), list(c[1])] for c in g1])
    cx.check('filled', [int(bool(x)) for x in f2] == [int(bool(x)) for x in f1], 'filled differs: %s vs %s' % (list(f2), list(f1)))


def instances(tier):
    out = []
    quick = tier == 'quick'
    for np_ in ((2, 4) if quick else (2, 4, 8)):
        out.append(inst('container tessellate num_procs=%d' % np_, h_procs_tessellate, timeout=900, num_procs=np_))
    out.append(inst('container tessellate twice (forced, spacing 2) num_procs=2', h_procs_tessellate, timeout=900, num_procs=2, again=True))
    if not quick:
        out.append(inst('container tessellate 1 surface num_procs=4', h_procs_tessellate, timeout=900, num_procs=4, nsurf=1))
    out.append(inst('voxelize (2, 2, 2) padding 1/4 num_procs=2', h_procs_voxelize, timeout=1800, num_procs=2, sz=(2, 2, 2), tol=F(1, 4)))
    out.append(inst('voxelize (3, 2, 2) padding 2/5 num_procs=4', h_procs_voxelize, timeout=1800, num_procs=4, sz=(3, 2, 2), tol=F(2, 5)))
    for np_, sz in ([(2, (2, 2, 2)), (4, (3, 2, 2)), (8, (3, 2, 2))] if quick else [(2, (2, 2, 2)), (4, (2, 2, 2)), (8, (2, 2, 2)), (2, (3, 2, 2)), (4, (3, 2, 2)), (8, (3, 2, 2)), (2, (3, 3, 3)), (4, (3, 3, 3))]):
        out.append(inst('voxelize %s num_procs=%d' % (sz, np_), h_procs_voxelize, timeout=1800, num_procs=np_, sz=sz))

    def add(kind, fn, sp, timeout=900, **kw):
        nm = ('%s %s %s' % (spec_name(sp), kind, ' '.join('%s=%s' % kv for kv in sorted(kw.items())))).strip()
        if not any(i.name == nm for i in out):
            out.append(inst(nm, fn, timeout=timeout, sp=sp, **kw))

    for p in (1, 2, 3):
        for m in [(), (1,), (p,), (1, 1)] + ([] if quick else [(1, p, 1)]):
            for rational in (False, True):
                sp = spec('curve', (p,), (m,), rational=rational)
                add('spanfunc', h_spanfunc, sp, order=1 if rational else p + 1)
                if p + len(m) <= 4 or not rational:
                    add('affine', h_affine, sp, timeout=1800, order=1 if rational else 2)
            add('evaluator', h_evaluator, spec('curve', (p,), (m,), rational=False, dim=3), order=p + 2)
        add('spanfunc', h_spanfunc, spec('curve', (p,), ((1,),), rational=True, lo=2, hi=5))
    # knot vectors times one symbolic factor (spans of any width): the two evaluator families agree
    add('evaluator', h_evaluator, spec('curve', (2,), ((1,),), rational=False, dim=3, kscaled=True), order=3)
    add('evaluator', h_evaluator, spec('curve', (3,), ((1, 1),), rational=False, dim=3, kscaled=True), order=3)
    add('evaluator', h_evaluator, spec('surface', (1, 2), ((), (1,)), rational=False, kscaled=True), timeout=1800, order=2)
    out.append(inst('curve p2 unclamped spanfunc', h_spanfunc, sp=dict(kind='curve', degs=(2,), kvs=[fam.unclamped_uniform(2, 5)], dim=2, rational=False, mults=((),)), order=2))
    surf = [((1, 2), ((1,), ())), ((2, 1), ((), (1,))), ((2, 2), ((1,), (1,)))] + ([] if quick else [((3, 2), ((1,), (1, 1)))])
    for degs, ms in surf:
        for rational in (False, True):
            sp = spec('surface', degs, ms, rational=rational)
            if not (quick and rational and sum(degs) > 3):
                add('spanfunc', h_spanfunc, sp, timeout=1800, order=1)
            if not rational or sum(degs) <= 3:
                add('affine', h_affine, sp, timeout=2400, order=1)
        add('evaluator', h_evaluator, spec('surface', degs, ms, rational=False), timeout=1800, order=max(degs) + 1)
    for rational in (False, True):
        sp = spec('volume', (1, 1, 2), ((1,), (), ()), rational=rational)
        add('spanfunc', h_spanfunc, sp, timeout=1800)
    add('affine', h_affine, spec('volume', (1, 1, 2), ((1,), (), ()), rational=False), timeout=2400)
    return out


# ------------------------------------------------------------------------------------------------
# extra checks: GEOMDL_CACHE_SIZE (CrossHair on the decorator expressions + subprocess runs)

CH_TEMPLATE = '''
import functools
from typing import Optional

EXPRS = %(exprs)r


class _Os:
    def __init__(self, env):
        self.environ = env


def cache_size_ok(value: Optional[str]) -> bool:
    """
    pre: value is None or (1 <= len(value) <= 4 and all(c in '0123456789' for c in value))
    post: _ == True
    """
    env = {} if value is None else {"GEOMDL_CACHE_SIZE": value}
    for e in EXPRS:
        m = eval(e, {"os": _Os(env)})
        if not (m is None or (isinstance(m, int) and not isinstance(m, bool))):
            return False
    return True


def cache_size_reach(value: Optional[str]) -> bool:
    """
    pre: value is None or (1 <= len(value) <= 4 and all(c in '0123456789' for c in value))
    post: _ == False
    """
    env = {} if value is None else {"GEOMDL_CACHE_SIZE": value}
    for e in EXPRS:
        eval(e, {"os": _Os(env)})
    return True
'''


def _maxsize_exprs(path):
    tree = ast.parse(open(path).read())
    out = []
    for node in ast.walk(tree):
        if isinstance(node, ast.Call) and getattr(node.func, 'id', getattr(node.func, 'attr', None)) == 'lru_cache':
            for kw in node.keywords:
                if kw.arg == 'maxsize':
                    out.append(ast.unparse(kw.value))
            if node.args:
                out.append(ast.unparse(node.args[0]))
    return out


def extra_checks(tier, seed):
    res = []
    t0 = time.time()
    exprs = []
    for f in ('helpers.py', 'linalg.py'):
        exprs += _maxsize_exprs(os.path.join(REPO, 'geomdl', f))
    name = 'cache-size expressions (CrossHair, symbolic GEOMDL_CACHE_SIZE)'
    if not exprs:
        res.append({'name': name, 'status': 'ok', 'detail': 'no lru_cache maxsize expression depends on the environment', 'counts': {'obligations': 1, 'discharged': 1}})
    else:
        with tempfile.TemporaryDirectory() as td:
            path = os.path.join(td, 'cachesize_check.py')
            open(path, 'w').write(CH_TEMPLATE % {'exprs': exprs})
            p = subprocess.run([sys.executable, '-m', 'crosshair', 'check', '--report_all', '--per_condition_timeout', '40' if tier == 'quick' else '120', path],
                               capture_output=True, text=True, timeout=900)
            lines = [l for l in (p.stdout + p.stderr).splitlines() if l.strip()]
            ok_line = [l for l in lines if 'cachesize_check.py' in l and 'Confirmed over all paths' in l]
            errs = [l for l in lines if 'error:' in l]
            main_err = [l for l in errs if 'cache_size_ok' in l]
            reach_err = [l for l in errs if 'cache_size_reach' in l]
            if main_err:
                res.append({'name': name, 'status': 'cex', 'base': 'maxsize', 'detail': main_err[0].split('error:')[-1].strip() + ' :: expressions ' + '; '.join(sorted(set(exprs))),
                            'model': {}, 'counts': {'obligations': 1, 'discharged': 0}})
            elif ok_line and reach_err:
                res.append({'name': name, 'status': 'ok', 'detail': '%d maxsize expressions: %s; confirmed over all paths; reachability twin violated as expected' % (len(exprs), sorted(set(exprs))),
                            'counts': {'obligations': len(exprs), 'discharged': len(exprs)}})
            else:
                res.append({'name': name, 'status': 'inconclusive', 'detail': 'crosshair output: ' + ' | '.join(lines)[:500]})
    # subprocess runs: import + symbolic C04 / C16 / C06 instances under each cache size (in parallel)
    from concurrent.futures import ThreadPoolExecutor
    jobs = [(val, prop, only) for val in (None, '1', '16', '1024')
            for prop, only in (('C04', 'curve p2 m(1,) rat ins[u1] operations'), ('C16', 'history pivot-then-inverse n2'), ('C06', 'curve p2 m(1,) nonrat ins2-rem2 dir u operations'))]

    def one(job):
        val, prop, only = job
        env = dict(os.environ)
        env.pop('GEOMDL_CACHE_SIZE', None)
        if val is not None:
            env['GEOMDL_CACHE_SIZE'] = val
        try:
            p = subprocess.run([sys.executable, '-m', 'sx.run', prop, '--tier', 'quick', '--only', only, '--no-evidence', '--jobs', '1'],
                               capture_output=True, text=True, timeout=900, cwd=VERIF, env=env)
        except subprocess.TimeoutExpired:
            return job, None, 'timeout'
        last = (p.stdout.strip().splitlines() or ['?'])[-1]
        return job, p.returncode, last
    with ThreadPoolExecutor(max_workers=12) as tp:
        done = list(tp.map(one, jobs))
    for val in (None, '1', '16', '1024'):
        nm = 'C04/C16/C06 instances under GEOMDL_CACHE_SIZE=%s' % val
        mine = [d for d in done if d[0][0] == val]
        detail = '; '.join('%s exit %s: %s' % (j[1], rc, str(last)[-110:]) for j, rc, last in mine)
        if any(rc is None for _, rc, _ in mine):
            res.append({'name': nm, 'status': 'inconclusive', 'detail': detail})
        elif all(rc == 0 and ' ok=0 ' not in last for _, rc, last in mine):
            res.append({'name': nm, 'status': 'ok', 'detail': detail, 'counts': {'obligations': 3, 'discharged': 3}})
        else:
            res.append({'name': nm, 'status': 'cex', 'base': 'cache_size_run', 'detail': detail, 'model': {'GEOMDL_CACHE_SIZE': val}})
    return res
