"""C15 - tessellation is a valid triangulation lying on the surface; trims; OBJ/OFF/STL exports."""
from fractions import Fraction as F

from .. import core, geo, shapes, oracles
from ..shapes import spec, spec_name
from ..run import inst

PROPERTY = 'C15'
ASSUMPTIONS = [
    'geometry: control points / weights symbolic, knots concrete; vertex positions are compared with the Cox-de Boor definition at the stored (u, v)',
    'tiling: the (u, v) triangles produced by the real code are concrete; the query point is symbolic in the open unit square and off every edge, so "covered exactly once" is decided for ALL query points',
    'trims: closed polygonal trims (freeform, exact corners) on a fixed family; "within one sampling cell" is stated with the cell size h: points farther than h inside the trim are uncovered, farther than h outside are covered exactly once',
    'exports: vertex coordinates printed as tokens and parsed back by a small reader in the harness',
    'exact reals: the accumulated parameter u += u_jump does not drift (in floats it can exceed 1.0 by one ulp for some sample sizes - outside the claim)',
]
OUTSIDE = ['binary32 rounding of binary STL (struct.pack of a symbolic number is modelled as an exact field), OBJ vertex normals', 'sample sizes > 6 (quick) / 9 (thorough) of the 2..40 range', 'spline trims with symbolic geometry', 'num_procs > 1 in containers']
BOUNDS = {'quick': 'sample sizes 2..5 (tiling up to 6x5), vertex spacings 1,2,3 dividing n-1; Triangular / Trim / Quad tessellators; rectangular trims (normal and reversed sense); OBJ/OFF/STL of 1-3 surfaces; binary STL (struct.pack model); deep copy of a tessellated surface as container element; trim moved between two tessellations',
          'thorough': 'sample sizes to 9, spacing 4'}


def _surface(cx, sp, ssu, ssv, tess=None):
    obj, info = shapes.build(cx, sp, normalize_kv=True)
    obj.sample_size_u = ssu
    obj.sample_size_v = ssv
    T = geo.M('tessellate')
    if tess == 'triangular':
        obj.tessellator = T.TriangularTessellate()
    elif tess == 'quad':
        obj.tessellator = T.QuadTessellate()
    elif tess == 'trim':
        obj.tessellator = T.TrimTessellate()
    return obj, info


def h_geometry(cx, sp, ssu, ssv, spacing, tess, subrange=False):
    obj, info = _surface(cx, sp, ssu, ssv, tess)
    kw = {} if tess == 'quad' else {'vertex_spacing': spacing}
    if subrange:
        # the documented partial evaluation was used before: the cached sample grid covers a sub-range only
        obj.evaluate(start_u=F(1, 4), stop_u=F(3, 4), start_v=F(1, 2))
    obj.tessellate(**kw)
    V, Fc = obj.vertices, obj.faces
    nu, nv = (ssu - 1) // spacing + 1, (ssv - 1) // spacing + 1
    if tess == 'quad':
        nu, nv = ssu, ssv
    cx.check('vertex_count', len(V) == nu * nv, '%d vertices, expected %d' % (len(V), nu * nv))
    cx.check('ids_consecutive', [v.id for v in V] == list(range(len(V))), str([v.id for v in V])[:80])
    per = 4 if tess == 'quad' else 3
    cx.check('face_count', len(Fc) == (nu - 1) * (nv - 1) * (1 if tess == 'quad' else 2), '%d faces' % len(Fc))
    vset = set(id(v) for v in V)
    for k, f in enumerate(Fc):
        cx.check('face_arity[%d]' % k, len(f.vertices) == per)
        cx.check('face_refs_existing[%d]' % k, all(id(x) in vset for x in f.vertices))
        cx.check('face_ids_in_range[%d]' % k, all(0 <= i < len(V) for i in f.data), str(f.data))
    if tess == 'quad' and not subrange:
        # quad vertices carry positions only: they are the sampled grid points
        ev = obj.evalpts
        for k, v in enumerate(V):
            cx.eq('vertex_is_sample[%d]' % k, list(v.data), list(ev[k]))
        return
    su, sv = info['sizes']
    for k, v in enumerate(V):
        i, j = divmod(k, nv)
        if tess == 'quad':
            spacing = 1
        cx.eq('uv[%d]' % k, list(v.uv), [F(i * spacing, ssu - 1), F(j * spacing, ssv - 1)])
        ref = oracles.surface_point_def(sp['degs'][0], sp['degs'][1], info['K'][0], info['K'][1], su, sv, info['P'], info['W'],
                                        cx.const(F(i * spacing, ssu - 1)), cx.const(F(j * spacing, ssv - 1)), cx)
        cx.eq('vertex_on_surface[%d]' % k, list(v.data), ref)


def h_component_direct(cx, ssu, ssv, spacing, which):
    """the tessellation components called directly on a grid of symbolic points (no re-evaluation by the surface)"""
    T = geo.M('tessellate')
    pts = cx.points('E', ssu * ssv, 3)
    comp = T.TriangularTessellate() if which == 'triangular' else T.TrimTessellate()
    comp.tessellate([list(p) for p in pts], size_u=ssu, size_v=ssv, vertex_spacing=spacing, **({'trims': []} if which == 'trim' else {}))
    V, Fc = comp.vertices, comp.faces
    nu, nv = (ssu - 1) // spacing + 1, (ssv - 1) // spacing + 1
    cx.check('vertex_count', len(V) == nu * nv, '%d vertices' % len(V))
    for k, v in enumerate(V):
        i, j = divmod(k, nv)
        cx.eq('vertex_is_sample[%d]' % k, list(v.data), pts[(j * spacing) + ssv * (i * spacing)])
        cx.eq('uv[%d]' % k, list(v.uv), [F(i * spacing, ssu - 1), F(j * spacing, ssv - 1)])
    cx.check('face_count', len(Fc) == 2 * (nu - 1) * (nv - 1))
    for k, f in enumerate(Fc):
        cx.check('face_ids[%d]' % k, all(0 <= i < len(V) for i in f.data))


def h_container(cx, nsurf, set_tessellator, again=None):
    """SurfaceContainer-level tessellation: consecutive ids, faces in range, every vertex on ITS surface"""
    multi = geo.M('multi')
    T = geo.M('tessellate')
    objs = []
    infos = []
    sps = [spec('surface', (1, 1), ((), ()), rational=False), spec('surface', (1, 2), ((), ()), rational=False), spec('surface', (2, 1), ((), ()), rational=False)][:nsurf]
    for i, sp in enumerate(sps):
        sizes = [len(k) - d - 1 for k, d in zip(sp['kvs'], sp['degs'])]
        P = cx.points('P%d_' % i, sizes[0] * sizes[1], 3)
        o = geo.make_surface(cx, sp['degs'][0], sp['degs'][1], cx.consts(sp['kvs'][0]), cx.consts(sp['kvs'][1]), sizes[0], sizes[1], P, None, normalize_kv=True)
        objs.append(o)
        infos.append((sp, sizes, P))
    mc = multi.SurfaceContainer()
    if again == 'copied_element':
        # every surface was tessellated on its own before; the second one is a deep copy of such a surface
        import copy as _copy
        for o in objs:
            o.sample_size_u, o.sample_size_v = 4, 3
            o.tessellate()
        objs[1] = _copy.deepcopy(objs[1])
    for o in objs:
        mc.add(o)
    mc.sample_size_u, mc.sample_size_v = 4, 3
    if set_tessellator:
        mc.tessellator = T.TriangularTessellate()
    if again == 'copied_element':
        mc.tessellate(delta=False)
    else:
        mc.tessellate()
    if again == 'reset':
        mc.vertices
        mc.reset()
        mc.tessellate()
    elif again == 'same_sample_size':
        mc.vertices
        mc.sample_size_u = mc.sample_size_u
        mc.tessellate()
    elif again == 'add':
        mc.vertices
        sp = sps[0]
        sizes = [len(k) - d - 1 for k, d in zip(sp['kvs'], sp['degs'])]
        P = cx.points('Px_', sizes[0] * sizes[1], 3)
        o = geo.make_surface(cx, sp['degs'][0], sp['degs'][1], cx.consts(sp['kvs'][0]), cx.consts(sp['kvs'][1]), sizes[0], sizes[1], P, None, normalize_kv=True)
        mc.add(o)
        objs.append(o)
        infos.append((sp, sizes, P))
        mc.tessellate()
    V, Fc = mc.vertices, mc.faces
    counts = [len(o.vertices) for o in objs]
    fcounts = [len(o.faces) for o in objs]
    cx.check('vertex_count', len(V) == sum(counts) and all(c >= 4 for c in counts), '%d vertices, per surface %s' % (len(V), counts))
    cx.check('ids_consecutive', [v.id for v in V] == list(range(len(V))), str([v.id for v in V])[:100])
    cx.check('face_count', len(Fc) == sum(fcounts) and all(c >= 2 for c in fcounts), '%d faces, per surface %s' % (len(Fc), fcounts))
    for k, f in enumerate(Fc):
        cx.check('face_ids_in_range[%d]' % k, all(0 <= i < len(V) for i in f.data), str(f.data))
    k = 0
    for si, o in enumerate(objs):
        sp, sizes, P = infos[si]
        for loc in range(counts[si]):
            if k >= len(V):
                break
            v = V[k]
            uv = [cx.const(_uvq(x)) for x in v.uv]
            ref = oracles.surface_point_def(sp['degs'][0], sp['degs'][1], cx.consts(sp['kvs'][0]), cx.consts(sp['kvs'][1]), sizes[0], sizes[1], P, None, uv[0], uv[1], cx)
            cx.eq('vertex_on_its_surface[%d]' % k, list(v.data), ref)
            k += 1
    # faces of surface si reference vertices of surface si only
    off = 0
    fk = 0
    for si in range(len(objs)):
        for _ in range(fcounts[si]):
            if fk < len(Fc):
                cx.check('face_within_surface[%d]' % fk, all(off <= i < off + counts[si] for i in Fc[fk].data), 'face %s of surface %d (vertices %d..%d)' % (Fc[fk].data, si, off, off + counts[si] - 1))
            fk += 1
        off += counts[si]


def _concrete_surface(cx, ssu, ssv, tess=None):
    B = geo.M('BSpline')
    s = B.Surface()
    s.degree_u, s.degree_v = 1, 1
    s.set_ctrlpts([[0, 0, 0], [0, 1, 0], [1, 0, 1], [1, 1, 0]], 2, 2)
    s.knotvector_u = [0, 0, 1, 1]
    s.knotvector_v = [0, 0, 1, 1]
    s.sample_size_u, s.sample_size_v = ssu, ssv
    T = geo.M('tessellate')
    if tess == 'triangular':
        s.tessellator = T.TriangularTessellate()
    return s


def _orient(a, b, c):
    return (b[0] - a[0]) * (c[1] - a[1]) - (c[0] - a[0]) * (b[1] - a[1])


def _uvq(x):
    return F(x.cval()) if isinstance(x, core.SymReal) else F(x).limit_denominator(10 ** 9)


def _cover_count(cx, tris, q):
    """number of triangles containing q (q off every edge): forks on the orientation signs"""
    cnt = 0
    for a, b, c in tris:
        o = [_orient(a, b, q), _orient(b, c, q), _orient(c, a, q)]
        if all(cx.holds(x > 0) for x in o) or all(cx.holds(x < 0) for x in o):
            cnt += 1
    return cnt


def _off_edges(cx, tris, q):
    seen = set()
    for t in tris:
        for a, b in ((t[0], t[1]), (t[1], t[2]), (t[2], t[0])):
            key = tuple(sorted((tuple(a), tuple(b))))
            if key in seen or tuple(a) == tuple(b):
                continue          # (degenerate edges of zero length constrain nothing)
            seen.add(key)
            cx.assume(_orient(a, b, q) != 0)


def h_tiling(cx, ssu, ssv, spacing, tess):
    s = _concrete_surface(cx, ssu, ssv, tess)
    s.tessellate(vertex_spacing=spacing)
    V, Fc = s.vertices, s.faces
    tris = [[[_uvq(x) for x in v.uv] for v in f.vertices] for f in Fc]
    # consistent orientation
    areas = [_orient(*t) for t in tris]
    cx.check('orientation_consistent', all(a > 0 for a in areas) or all(a < 0 for a in areas), 'signed areas %s' % areas[:8])
    # combinatorics: interior edges shared by two triangles, boundary edges by one, Euler characteristic of a disc
    edges = {}
    for f in Fc:
        ids = list(f.data)
        for a, b in ((ids[0], ids[1]), (ids[1], ids[2]), (ids[2], ids[0])):
            edges[frozenset((a, b))] = edges.get(frozenset((a, b)), 0) + 1
    cx.check('edges_shared_at_most_twice', all(c in (1, 2) for c in edges.values()))
    nu, nv = (ssu - 1) // spacing + 1, (ssv - 1) // spacing + 1
    boundary = sum(1 for c in edges.values() if c == 1)
    cx.check('boundary_edge_count', boundary == 2 * (nu - 1) + 2 * (nv - 1), '%d boundary edges' % boundary)
    cx.check('euler_characteristic', len(V) - len(edges) + len(Fc) == 1, 'V-E+F = %d' % (len(V) - len(edges) + len(Fc)))
    # every query point of the open square, off the edges, is covered exactly once
    q = [cx.real('s', lo=0, hi=1), cx.real('t', lo=0, hi=1)]
    cx.assume(q[0] > 0)
    cx.assume(q[0] < 1)
    cx.assume(q[1] > 0)
    cx.assume(q[1] < 1)
    _off_edges(cx, tris, q)
    cnt = _cover_count(cx, tris, q)
    cx.check('covered_exactly_once', cnt == 1, 'query point covered by %d triangles' % cnt)


def h_trim(cx, ss, rect, reversed_sense, moved_from=None):
    """rectangular trim [a,b]x[c,d] in the parametric square, cell size h = 1/(ss-1)"""
    s = _concrete_surface(cx, ss, ss)
    ff = geo.M('freeform').Freeform()
    a, b, c, d = [F(x) for x in rect]
    ff.evaluate(points=[[a, c], [b, c], [b, d], [a, d], [a, c]])
    if reversed_sense:
        ff.opt = ['reversed', 1]
    s.tessellator = geo.M('tessellate').TrimTessellate()
    if moved_from is not None:
        # the surface was tessellated with the trim somewhere else before; then the trim curve was moved and the
        # tessellation forced again
        a0, b0, c0, d0 = [F(x) for x in moved_from]
        ff.evaluate(points=[[a0, c0], [b0, c0], [b0, d0], [a0, d0], [a0, c0]])
        s.trims = [ff]
        s.tessellate()
        len(s.faces)
        ff.evaluate(points=[[a, c], [b, c], [b, d], [a, d], [a, c]])
        s.tessellate(force=True)
    else:
        s.trims = [ff]
        s.tessellate()
    tris = [[[_uvq(x) for x in v.uv] for v in f.vertices] for f in s.faces]
    cx.check('has_triangles', len(tris) > 0)
    for k, f in enumerate(s.faces):
        cx.check('face_refs[%d]' % k, all(0 <= i < len(s.vertices) for i in f.data), str(f.data))
    h = F(1, ss - 1)
    q = [cx.real('s', lo=0, hi=1), cx.real('t', lo=0, hi=1)]
    for x in q:
        cx.assume(x > 0)
        cx.assume(x < 1)
    _off_edges(cx, tris, q)
    deep_inside = cx.all_of([q[0] > a + h, q[0] < b - h, q[1] > c + h, q[1] < d - h])
    far_outside = cx.any_of([q[0] < a - h, q[0] > b + h, q[1] < c - h, q[1] > d + h])
    cx.assume(cx.any_of([deep_inside, far_outside]))
    cnt = _cover_count(cx, tris, q)
    inside = cx.holds(deep_inside)
    removed = inside != bool(reversed_sense)       # normal sense: the enclosed area is trimmed away
    cx.check('trim_region', cnt == (0 if removed else 1), 'query point %s the trim is covered by %d triangles' % ('deep inside' if inside else 'far outside', cnt))


def _parse_obj(cx, text):
    vs, fs = [], []
    for line in text.split('\n'):
        parts = line.split()
        if not parts:
            continue
        if parts[0] == 'v':
            vs.append([_num(cx, p) for p in parts[1:4]])
        elif parts[0] == 'f':
            fs.append([int(p) for p in parts[1:4]])
    return vs, fs


def _num(cx, tok):
    t = core.token_value(tok) if cx.symbolic else None
    return t if t is not None else float(tok)


def h_export(cx, sps, fmt, ss, spacing=1, touched=False):
    ex = geo.M('exchange')
    multi = geo.M('multi')
    objs = []
    for i, sp in enumerate(sps):
        degs, kvs = sp['degs'], sp['kvs']
        sizes = [len(k) - d - 1 for k, d in zip(kvs, degs)]
        P = cx.points('P%d_' % i, sizes[0] * sizes[1], 3)
        W = cx.reals('w%d_' % i, sizes[0] * sizes[1], positive=True) if sp['rational'] else None
        o = geo.make_surface(cx, degs[0], degs[1], cx.consts(kvs[0]), cx.consts(kvs[1]), sizes[0], sizes[1], P, W, normalize_kv=True)
        objs.append(o)
    if len(objs) == 1:
        src = objs[0]
        src.sample_size_u = src.sample_size_v = ss
    else:
        src = multi.SurfaceContainer()
        for o in objs:
            src.add(o)
        src.sample_size_u = src.sample_size_v = ss
    if touched:
        for _g in src:
            break          # a loop over the object was abandoned earlier
    if fmt == 'obj':
        text = ex.export_obj_str(src, vertex_spacing=spacing)
    elif fmt == 'off':
        text = ex.export_off_str(src, vertex_spacing=spacing)
    elif fmt == 'stlb':
        text = ex.export_stl_str(src, binary=True, vertex_spacing=spacing)
    else:
        text = ex.export_stl_str(src, binary=False, vertex_spacing=spacing)
    # reference mesh: what the surfaces' tessellators hold after the export
    ref_v, ref_f = [], []
    off = 0
    for o in objs:
        vs, fs = o.tessellator.vertices, o.tessellator.faces
        ref_v += [list(v.data) for v in vs]
        ref_f += [[i + off for i in f.data] for f in fs]
        off += len(vs)
    n = (ss - 1) // spacing + 1
    cx.check('mesh_size', len(ref_v) == len(objs) * n * n and len(ref_f) == len(objs) * 2 * (n - 1) * (n - 1), '%d vertices %d faces' % (len(ref_v), len(ref_f)))
    if fmt == 'obj':
        vs, fs = _parse_obj(cx, text)
        cx.eq('vertices', vs, ref_v)
        cx.check('faces', fs == [[i + 1 for i in f] for f in ref_f], 'faces differ: %s vs %s' % (fs[:3], ref_f[:3]))
        cx.check('indices_in_range', all(1 <= i <= len(vs) for f in fs for i in f))
    elif fmt == 'off':
        lines = [l for l in text.split('\n') if l.strip()]
        cx.check('magic', lines[0].strip() == 'OFF')
        hv, hf, he = [int(x) for x in lines[1].split()]
        cx.check('header_counts', (hv, hf) == (len(ref_v), len(ref_f)), 'header %d %d' % (hv, hf))
        vs = [[_num(cx, p) for p in l.split()] for l in lines[2:2 + hv]]
        fs = [[int(p) for p in l.split()] for l in lines[2 + hv:2 + hv + hf]]
        cx.eq('vertices', vs, ref_v)
        cx.check('faces', all(f[0] == 3 for f in fs) and [f[1:] for f in fs] == ref_f, 'faces differ')
        cx.check('indices_in_range', all(0 <= i < hv for f in fs for i in f[1:]))
        cx.check('no_extra_lines', len(lines) == 2 + hv + hf)
    else:
        facets = []
        if fmt == 'stlb':
            # binary STL: 80-byte header, int32 facet count, per facet 12 float32 (normal, 3 vertices) + 2 attribute bytes
            try:
                hdr, rest = core.read_packed(text, '<80B')
                (cnt,), rest = core.read_packed(rest, '<i')
                cx.check('header', all(b == 0 for b in hdr))
                cx.check('count_field', cnt == len(ref_f), 'count field %s, %d faces' % (cnt, len(ref_f)))
                for _ in range(len(ref_f)):
                    nums, rest = core.read_packed(rest, '<12f')
                    attr, rest = core.read_packed(rest, '<2B')
                    cx.check('attribute_bytes', attr == [0, 0])
                    facets.append({'n': nums[0:3], 'v': [nums[3:6], nums[6:9], nums[9:12]]})
                cx.check('length', len(rest) == 0, '%d trailing bytes' % len(rest))
            except ValueError as e:
                cx.fail('binary_layout', str(e))
                return
            lines = []
        else:
            lines = [l.split() for l in text.split('\n') if l.strip()]
            cx.check('solid', lines[0][0] == 'solid' and lines[-1][0] == 'endsolid')
        cur = None
        for l in lines:
            if l[0] == 'facet':
                cur = {'n': [_num(cx, p) for p in l[2:5]], 'v': []}
            elif l[0] == 'vertex':
                cur['v'].append([_num(cx, p) for p in l[1:4]])
            elif l[0] == 'endfacet':
                facets.append(cur)
        cx.check('facet_count', len(facets) == len(ref_f), '%d facets' % len(facets))
        for k, (fc, f) in enumerate(zip(facets, ref_f)):
            tri = [ref_v[i] for i in f]
            cx.eq('facet_vertices[%d]' % k, fc['v'], tri)
            e1 = [b - a for a, b in zip(tri[0], tri[1])]
            e2 = [b - a for a, b in zip(tri[1], tri[2])]
            cx.eq('facet_normal[%d]' % k, fc['n'], [e1[1] * e2[2] - e1[2] * e2[1], e1[2] * e2[0] - e1[0] * e2[2], e1[0] * e2[1] - e1[1] * e2[0]])


def instances(tier):
    out = []
    quick = tier == 'quick'
    sps = [spec('surface', (1, 2), ((), (1,)), rational=False), spec('surface', (2, 1), ((1,), ()), rational=True)]
    combos = [(2, 2, 1), (3, 2, 1), (2, 4, 1), (3, 5, 2), (4, 4, 3), (5, 3, 2), (4, 3, 1)]
    if not quick:
        combos += [(5, 5, 4), (7, 4, 3), (5, 9, 4), (6, 6, 5), (9, 5, 2)]
    for sp in sps:
        for ssu, ssv, spacing in combos:
            if (ssu - 1) % spacing or (ssv - 1) % spacing:
                continue
            for tess in ('default', 'triangular'):
                out.append(inst('%s geometry %dx%d spacing%d %s' % (spec_name(sp), ssu, ssv, spacing, tess), h_geometry, timeout=1200,
                                sp=sp, ssu=ssu, ssv=ssv, spacing=spacing, tess=tess))
        for ssu, ssv in ((2, 3), (4, 3)):
            out.append(inst('%s geometry %dx%d quad' % (spec_name(sp), ssu, ssv), h_geometry, timeout=1200, sp=sp, ssu=ssu, ssv=ssv, spacing=1, tess='quad'))
    for ssu, ssv, spacing in ((3, 3, 1), (3, 5, 2), (5, 3, 2), (4, 7, 3), (7, 4, 3)):
        for which in ('triangular', 'trim'):
            out.append(inst('component %s direct %dx%d spacing%d' % (which, ssu, ssv, spacing), h_component_direct, timeout=900, ssu=ssu, ssv=ssv, spacing=spacing, which=which))
    for nsurf in (1, 2, 3):
        for st in (False, True):
            out.append(inst('container %d surfaces tessellator_set=%s' % (nsurf, st), h_container, timeout=900, nsurf=nsurf, set_tessellator=st))
    out.append(inst('container 2 surfaces, second a deep copy of a tessellated surface', h_container, timeout=900, nsurf=2, set_tessellator=False, again='copied_element'))
    out.append(inst('container 3 surfaces, second a deep copy of a tessellated surface', h_container, timeout=900, nsurf=3, set_tessellator=False, again='copied_element'))
    for again in ('reset', 'same_sample_size', 'add'):
        out.append(inst('container 2 surfaces tessellated again after %s' % again, h_container, timeout=900, nsurf=2, set_tessellator=False, again=again))
    for sp in sps:
        out.append(inst('%s geometry 3x3 after sub-range evaluate default' % spec_name(sp), h_geometry, timeout=900, sp=sp, ssu=3, ssv=3, spacing=1, tess='default', subrange=True))
        out.append(inst('%s geometry 3x2 after sub-range evaluate quad' % spec_name(sp), h_geometry, timeout=900, sp=sp, ssu=3, ssv=2, spacing=1, tess='quad', subrange=True))
    tcombos = [(2, 2, 1), (3, 2, 1), (3, 4, 1), (5, 3, 2), (4, 4, 3), (6, 5, 1), (5, 5, 2)]
    if not quick:
        tcombos += [(9, 7, 2), (8, 8, 1), (9, 9, 4), (7, 4, 3)]
    for ssu, ssv, spacing in tcombos:
        for tess in ('default', 'triangular'):
            out.append(inst('tiling %dx%d spacing%d %s' % (ssu, ssv, spacing, tess), h_tiling, timeout=2400, ssu=ssu, ssv=ssv, spacing=spacing, tess=tess))
    for ss, rect in ((9, (F(1, 4), F(3, 4), F(1, 4), F(3, 4))), (6, (F(1, 5), F(4, 5), F(2, 5), F(4, 5))), (5, (F(1, 8), F(7, 8), F(3, 8), F(7, 8)))) + \
            (() if quick else ((9, (F(1, 8), F(5, 8), F(1, 4), F(7, 8))), (11, (F(1, 5), F(3, 5), F(3, 10), F(9, 10))))):
        for rev in (False, True):
            out.append(inst('trim ss%d rect%s %s' % (ss, tuple(str(x) for x in rect), 'reversed' if rev else 'normal'), h_trim, timeout=2400, ss=ss, rect=rect, reversed_sense=rev))
    out.append(inst('trim ss6 moved from another place, tessellation forced again', h_trim, timeout=2400, ss=6, rect=(F(1, 5), F(4, 5), F(1, 5), F(4, 5)), reversed_sense=False, moved_from=(F(1, 20), F(3, 20), F(1, 20), F(3, 20))))
    e1 = [spec('surface', (1, 1), ((), ()), rational=False)]
    e2 = e1 + [spec('surface', (1, 2), ((), ()), rational=True)]
    e3 = e2 + [spec('surface', (2, 1), ((), ()), rational=False)]
    for fmt in ('obj', 'off', 'stl', 'stlb'):
        out.append(inst('export %s 3 surfaces after abandoned loop' % fmt, h_export, timeout=1800, sps=e3, fmt=fmt, ss=2, spacing=1, touched=True))
        for lst, ss, spacing in ((e1, 3, 1), (e2, 3, 2), (e3, 2, 1), (e3, 3, 1)):
            out.append(inst('export %s %d surfaces ss%d spacing%d' % (fmt, len(lst), ss, spacing), h_export, timeout=1800, sps=lst, fmt=fmt, ss=ss, spacing=spacing))
    return out
