"""AST -> z3 (Int) check of the flat control-net index expressions, for ALL sizes 1..64 (DESIGN 2.9, C13 method B).

Every subscript (or `idx = ...` assignment) in the listed geomdl sources whose index multiplies by a size is
extracted from the *current* source with `ast`, translated to a z3 integer term (loop variables, sizes and
annotated composite terms become Int variables constrained by their loop ranges) and checked:

  A  in range        0 <= index < product of the ranges of its index variables
  B  injective       two different assignments of the index variables give different indices
  C  convention      for arrays holding a control net / sample grid: index == v + size_v*(u + size_u*w)
                     with the roles u, v, w read off the *ranges* of the variables (size_u / [0] ...)

A and B make the expression a well-formed mixed-radix address whatever the layout; C ties control nets to
the library's single convention.  Counterexamples are concrete sizes/indices and are replayed by evaluating
the real source expression with Python ints.
"""
import ast
import os
import re
import time

import z3

FILES = ['evaluators.py', 'operations.py', 'construct.py', 'control_points.py', 'BSpline.py', '_exchange.py', 'helpers.py', 'fitting.py']
# loops over sub-ranges (first/last rows, i+1 offsets): the generic in-range/injectivity reading does not apply
SKIP_FUNCS = {('fitting.py', 'approximate_surface')}

# composite index terms without an enclosing range() loop: unparse-string -> bound expression (source text)
ANNOT = {
    ('evaluators.py', 'evaluate'): {'idx_v + l': 'size[1]', 'idx_u + k': 'size[0]', 'iv + dv': 'size[1]', 'iu + du': 'size[0]', 'iw + dw': 'size[2]'},
    ('evaluators.py', 'derivatives'): {'cu': 'size[0]', 'cv': 'size[1]'},
    ('control_points.py', 'find_index'): {'args[0]': 'self._size[0]', 'args[1]': 'self._size[1]', 'args[2]': 'self._size[2]'},
    ('fitting.py', 'approximate_surface'): {'0': None},
}
# arrays that hold a control net / grid in the library's convention (others get checks A and B only)
CONVENTION_ARRAYS = {'cpts', 'ctrlpts', 'points', 'control_points', 'ctrlpts_tmp', 'ctrlpts_new', 'evalpts', 'vertices', '<assign idx>', '<return>'}
SIZE_RE = re.compile(r'size|cpsize|num_cpts', re.I)


class Unsupported(Exception):
    pass


def _has_size_mult(node):
    for n in ast.walk(node):
        if isinstance(n, ast.BinOp) and isinstance(n.op, ast.Mult):
            if SIZE_RE.search(ast.unparse(n)):
                return True
    return False


def _parents(tree):
    par = {}
    for n in ast.walk(tree):
        for c in ast.iter_child_nodes(n):
            par[c] = n
    return par


def _loops(node, par):
    """{name: (lo_expr, hi_expr)} from enclosing for-loops / comprehensions over range(...)"""
    out = {}
    n = node
    func = None
    while n in par:
        p = par[n]
        gens = []
        if isinstance(p, ast.For):
            gens.append((p.target, p.iter))
        if isinstance(p, (ast.ListComp, ast.GeneratorExp, ast.SetComp)):
            gens += [(g.target, g.iter) for g in p.generators]
        for tgt, it in gens:
            if isinstance(tgt, ast.Name) and isinstance(it, ast.Call) and getattr(it.func, 'id', '') == 'range' and tgt.id not in out:
                a = it.args
                if len(a) == 1:
                    out[tgt.id] = (None, a[0])
                elif len(a) == 2:
                    out[tgt.id] = (a[0], a[1])
        if isinstance(p, (ast.FunctionDef, ast.AsyncFunctionDef)) and func is None:
            func = p.name
        n = p
    return out, func


class Translator:
    def __init__(self, annot):
        self.vars = {}
        self.annot = annot or {}
        self.index_terms = {}      # z3 var name -> bound source text (annotated composite terms)

    def var(self, name):
        if name not in self.vars:
            self.vars[name] = z3.Int(name)
        return self.vars[name]

    def tr(self, n):
        src = ast.unparse(n)
        if src in self.annot and self.annot[src] is not None:
            self.index_terms[src] = self.annot[src]
            return self.var(src)
        if isinstance(n, ast.Constant) and isinstance(n.value, int):
            return z3.IntVal(n.value)
        if isinstance(n, ast.Name):
            return self.var(n.id)
        if isinstance(n, (ast.Attribute, ast.Subscript)):
            return self.var(src)
        if isinstance(n, ast.BinOp):
            a, b = self.tr(n.left), self.tr(n.right)
            if isinstance(n.op, ast.Add):
                return a + b
            if isinstance(n.op, ast.Sub):
                return a - b
            if isinstance(n.op, ast.Mult):
                return a * b
        if isinstance(n, ast.UnaryOp) and isinstance(n.op, ast.USub):
            return -self.tr(n.operand)
        raise Unsupported(src)


def _role(bound_src):
    s = bound_src.replace(' ', '')
    if re.search(r'(_u\b|_u\)|\[0\]|size_u|cpts_u)', s):
        return 'u'
    if re.search(r'(_v\b|\[1\]|size_v|cpts_v)', s):
        return 'v'
    if re.search(r'(_w\b|\[2\]|size_w)', s):
        return 'w'
    return None


def sites(repo):
    """yield dict(file, func, line, array, expr_node, loops) for every candidate index expression"""
    for fn in FILES:
        path = os.path.join(repo, 'geomdl', fn)
        if not os.path.exists(path):
            continue
        tree = ast.parse(open(path).read())
        par = _parents(tree)
        for node in ast.walk(tree):
            expr = arr = None
            if isinstance(node, ast.Subscript) and not isinstance(node.slice, ast.Slice):
                if _has_size_mult(node.slice):
                    expr, arr = node.slice, ast.unparse(node.value).split('.')[-1]
            elif isinstance(node, ast.Assign) and len(node.targets) == 1 and isinstance(node.targets[0], ast.Name) and node.targets[0].id == 'idx':
                if _has_size_mult(node.value):
                    expr, arr = node.value, '<assign idx>'
            elif isinstance(node, ast.Return) and node.value is not None and isinstance(node.value, ast.BinOp) and _has_size_mult(node.value):
                expr, arr = node.value, '<return>'
            if expr is None:
                continue
            # skip subscripts nested inside a larger candidate (e.g. size[1] inside the index itself)
            if isinstance(node, ast.Subscript) and SIZE_RE.search(ast.unparse(node.value)) and not _has_size_mult(node.slice):
                continue
            loops, func = _loops(node, par)
            if (fn, func) in SKIP_FUNCS:
                continue
            yield {'file': fn, 'func': func, 'line': node.lineno, 'array': arr, 'expr': expr, 'loops': loops, 'src': ast.unparse(expr)}


def check_site(site, maxsize=64, timeout_ms=20000):
    annot = ANNOT.get((site['file'], site['func']), {})
    T = Translator(annot)
    try:
        E = T.tr(site['expr'])
    except Unsupported as e:
        return {'status': 'skipped', 'why': 'unsupported term %s' % e}
    names = set(T.vars)
    idx_vars = {}          # name -> (lo z3, hi z3, bound source)
    for nm in names:
        if nm in T.index_terms:
            b = ast.parse(T.index_terms[nm], mode='eval').body
            idx_vars[nm] = (z3.IntVal(0), T.tr(b), T.index_terms[nm])
        elif nm in site['loops']:
            lo, hi = site['loops'][nm]
            try:
                idx_vars[nm] = (z3.IntVal(0) if lo is None else T.tr(lo), T.tr(hi), ast.unparse(hi))
            except Unsupported as e:
                return {'status': 'skipped', 'why': 'unsupported loop bound %s' % e}
    size_vars = [nm for nm in T.vars if nm not in idx_vars]
    free_nonsize = [nm for nm in size_vars if not SIZE_RE.search(nm) and not re.search(r'degree|num_', nm)]
    if free_nonsize or not idx_vars:
        return {'status': 'skipped', 'why': 'index variables without a known range: %s' % sorted(free_nonsize)}
    base = []
    for nm in size_vars:
        base += [T.vars[nm] >= 1, T.vars[nm] <= maxsize]
    total = z3.IntVal(1)
    for nm, (lo, hi, _) in idx_vars.items():
        base += [T.vars[nm] >= lo, T.vars[nm] < hi]
        total = total * (hi - lo)
    res = {'status': 'ok', 'checks': []}

    def query(label, *conds):
        s = z3.Solver()
        s.set('timeout', timeout_ms)
        s.add(*base)
        s.add(*conds)
        r = s.check()
        res['checks'].append((label, str(r)))
        if r == z3.sat:
            m = s.model()
            res['status'] = 'cex'
            res['label'] = label
            res['model'] = {str(d): m[d].as_long() for d in m.decls()}
            for nm, var in T.vars.items():
                res['model'].setdefault(nm, m.eval(var, model_completion=True).as_long())
                if nm in idx_vars:
                    res['model'].setdefault(nm + "'", m.eval(z3.Int(nm + "'"), model_completion=True).as_long())
        elif r == z3.unknown and res['status'] == 'ok':
            res['status'] = 'unknown'
        return r

    # A: in range
    if query('in_range', z3.Or(E < 0, E >= total)) == z3.sat:
        return res
    # B: injective
    ren = [(T.vars[nm], z3.Int(nm + "'")) for nm in idx_vars]
    E2 = z3.substitute(E, *ren)
    base2 = [z3.substitute(c, *ren) for c in base]
    if query('injective', E == E2, z3.Or([a != b for a, b in ren]), *base2) == z3.sat:
        return res
    # C: convention
    if site['array'] in CONVENTION_ARRAYS:
        roles = {}
        for nm, (lo, hi, bsrc) in idx_vars.items():
            r = _role(bsrc)
            if r is None or r in roles:
                roles = None
                break
            roles[r] = (T.vars[nm] - lo, hi - lo)
        if roles and 'v' in roles:
            conv = roles['v'][0]
            if 'u' in roles:
                inner = roles['u'][0]
                if 'w' in roles:
                    inner = inner + roles['u'][1] * roles['w'][0]
                conv = conv + roles['v'][1] * inner
                query('convention', E != conv)
                res['convention'] = True
    return res


def _eval_src(site_src, model, primed=False):
    """evaluate the source expression over Python ints, looking variables up by their source text"""
    def look(src):
        if primed and (src + "'") in model:
            return model[src + "'"]
        return model[src]

    def ev(n):
        src = ast.unparse(n)
        if src in model:
            return look(src)
        if isinstance(n, ast.Constant):
            return n.value
        if isinstance(n, ast.BinOp):
            a, b = ev(n.left), ev(n.right)
            return a + b if isinstance(n.op, ast.Add) else a - b if isinstance(n.op, ast.Sub) else a * b
        if isinstance(n, ast.UnaryOp):
            return -ev(n.operand)
        raise KeyError(src)
    return ev(ast.parse(site_src, mode='eval').body)


def replay(site_src, res):
    """evaluate the REAL source expression with the counterexample's integers; True when the violation reproduces"""
    model = res['model']
    try:
        v1 = _eval_src(site_src, model)
        if res['label'] == 'injective':
            v2 = _eval_src(site_src, model, primed=True)
            return {'reproduced': v1 == v2, 'detail': 'two different index tuples give the same flat index %d' % v1}
        if res['label'] == 'in_range':
            return {'reproduced': True, 'detail': 'flat index %d outside the array for sizes %s' % (v1, {k: v for k, v in model.items() if SIZE_RE.search(k)})}
        return {'reproduced': True, 'detail': 'flat index %d differs from v + size_v*(u + size_u*w) for %s' % (v1, model)}
    except Exception as e:      # noqa
        return {'reproduced': False, 'detail': 'replay failed: %s' % e}


def run(repo):
    t0 = time.time()
    out = []
    for st in sites(repo):
        r = check_site(st)
        r.update({'file': st['file'], 'func': st['func'], 'line': st['line'], 'array': st['array'], 'src': st['src']})
        if r['status'] == 'cex':
            r['replay'] = replay(st['src'], r)
        out.append(r)
    return out, time.time() - t0


if __name__ == '__main__':
    import sys
    res, dt = run(sys.argv[1] if len(sys.argv) > 1 else '/repo')
    for r in res:
        print('%-18s %-28s L%-5d %-14s %-8s %s %s' % (r['file'], r['func'], r['line'], r['array'], r['status'], r['src'][:70], r.get('why', '') or r.get('label', '')))
    print('%d sites, %.1fs' % (len(res), dt))
