"""Exact sparse multivariate polynomials / rational functions over Q.

This is the *normal form* used by the symbolic-real proxy (sx.core.SymReal): the real geomdl code
computes with these objects, so that on one execution path every returned number is an exact
rational function of the symbolic inputs.  z3 sees (sign-)polynomials built from them.

Poly : {monomial: Fraction}; monomial = tuple of (var_index, power) sorted by var_index.
RF   : Poly numerator / multiset of monic polynomial factors (denominator).
"""
from fractions import Fraction

_F0 = Fraction(0)
_F1 = Fraction(1)


def mono_mul(a, b):
    if not a:
        return b
    if not b:
        return a
    # merge two sorted tuples
    i = j = 0
    la, lb = len(a), len(b)
    out = []
    while i < la and j < lb:
        va, pa = a[i]
        vb, pb = b[j]
        if va == vb:
            out.append((va, pa + pb)); i += 1; j += 1
        elif va < vb:
            out.append(a[i]); i += 1
        else:
            out.append(b[j]); j += 1
    if i < la:
        out.extend(a[i:])
    if j < lb:
        out.extend(b[j:])
    return tuple(out)


def mono_div(a, b):
    """a / b or None when b does not divide a."""
    if not b:
        return a
    d = dict(a)
    for v, p in b:
        q = d.get(v, 0) - p
        if q < 0:
            return None
        if q:
            d[v] = q
        else:
            del d[v]
    return tuple(sorted(d.items()))


def mono_key(m):
    """lexicographic monomial order, higher variable index = larger variable."""
    return m[::-1]


def mono_deg(m):
    return sum(p for _, p in m)


class Poly:
    __slots__ = ('t', '_h')

    def __init__(self, t):
        self.t = t
        self._h = None

    @staticmethod
    def const(c):
        c = Fraction(c)
        return Poly({(): c} if c else {})

    @staticmethod
    def var(i):
        return Poly({((i, 1),): _F1})

    def is_zero(self):
        return not self.t

    def is_const(self):
        return not self.t or (len(self.t) == 1 and () in self.t)

    def cval(self):
        return self.t.get((), _F0)

    def degree(self):
        return max((mono_deg(m) for m in self.t), default=0)

    def is_linear(self):
        for m in self.t:
            if len(m) > 1 or (m and m[0][1] > 1):
                return False
        return True

    def vars(self):
        s = set()
        for m in self.t:
            for v, _ in m:
                s.add(v)
        return s

    def __len__(self):
        return len(self.t)

    def __add__(self, o):
        if len(self.t) < len(o.t):
            self, o = o, self
        r = dict(self.t)
        for m, c in o.t.items():
            v = r.get(m)
            if v is None:
                r[m] = c
            else:
                v = v + c
                if v:
                    r[m] = v
                else:
                    del r[m]
        return Poly(r)

    def __neg__(self):
        return Poly({m: -c for m, c in self.t.items()})

    def __sub__(self, o):
        r = dict(self.t)
        for m, c in o.t.items():
            v = r.get(m)
            if v is None:
                r[m] = -c
            else:
                v = v - c
                if v:
                    r[m] = v
                else:
                    del r[m]
        return Poly(r)

    def scale(self, c):
        if not c:
            return ZERO
        return Poly({m: v * c for m, v in self.t.items()})

    def __mul__(self, o):
        if len(self.t) > len(o.t):
            self, o = o, self
        if not self.t:
            return ZERO
        if len(self.t) == 1:
            (m1, c1), = self.t.items()
            if not m1:
                return o if c1 == 1 else Poly({m: c * c1 for m, c in o.t.items()})
            return Poly({mono_mul(m1, m2): c1 * c2 for m2, c2 in o.t.items()})
        r = {}
        for m1, c1 in self.t.items():
            for m2, c2 in o.t.items():
                m = mono_mul(m1, m2)
                v = r.get(m)
                if v is None:
                    r[m] = c1 * c2
                else:
                    v = v + c1 * c2
                    if v:
                        r[m] = v
                    else:
                        del r[m]
        return Poly(r)

    def __pow__(self, k):
        r = ONE
        for _ in range(k):
            r = r * self
        return r

    def subst(self, vi, q):
        """replace variable vi by polynomial q"""
        pows = {0: ONE}
        acc = {}
        groups = {}
        for m, c in self.t.items():
            k = 0
            rest = m
            for idx, (v, p) in enumerate(m):
                if v == vi:
                    k = p
                    rest = m[:idx] + m[idx + 1:]
                    break
            groups.setdefault(k, {})[rest] = c
        if len(groups) == 1 and 0 in groups:
            return self
        r = ZERO
        for k, t in groups.items():
            if k not in pows:
                for j in range(1, k + 1):
                    if j not in pows:
                        pows[j] = pows[j - 1] * q
            r = r + Poly(t) * pows[k]
        return r

    def reduce_power(self, vi, k, q):
        """rewrite  x_vi**k -> q  (repeatedly); used for sqrt / unit-circle relations."""
        cur = self
        while True:
            hi = {}
            lo = {}
            found = False
            for m, c in cur.t.items():
                e = 0
                pos = -1
                for idx, (v, p) in enumerate(m):
                    if v == vi:
                        e = p; pos = idx
                        break
                if e >= k:
                    found = True
                    nm = m[:pos] + (((vi, e - k),) if e - k else ()) + m[pos + 1:]
                    hi[nm] = hi.get(nm, _F0) + c
                else:
                    lo[m] = c
            if not found:
                return cur
            cur = Poly(lo) + Poly({m: c for m, c in hi.items() if c}) * q

    def diff(self, vi):
        r = {}
        for m, c in self.t.items():
            for idx, (v, p) in enumerate(m):
                if v == vi:
                    nm = m[:idx] + (((vi, p - 1),) if p > 1 else ()) + m[idx + 1:]
                    r[nm] = r.get(nm, _F0) + c * p
                    break
        return Poly({m: c for m, c in r.items() if c})

    def coeff_of(self, vi):
        """(a, b) with self = a * x_vi + b, requires degree <= 1 in x_vi (else None)."""
        a = {}
        b = {}
        for m, c in self.t.items():
            hit = False
            for idx, (v, p) in enumerate(m):
                if v == vi:
                    if p != 1:
                        return None
                    a[m[:idx] + m[idx + 1:]] = c
                    hit = True
                    break
            if not hit:
                b[m] = c
        return Poly(a), Poly(b)

    def evaluate(self, env):
        """env: {var_index: Fraction} total on vars()."""
        tot = _F0
        for m, c in self.t.items():
            v = c
            for vi, p in m:
                v = v * env[vi] ** p
            tot += v
        return tot

    def key(self):
        if self._h is None:
            self._h = tuple(sorted(self.t.items()))
        return self._h

    def __eq__(self, o):
        return isinstance(o, Poly) and self.t == o.t

    def __hash__(self):
        return hash(self.key())

    def lead(self):
        return max(self.t, key=mono_key)

    def monic(self):
        """(unit, monic poly) w.r.t. the lexicographic leading monomial."""
        if not self.t:
            return _F0, self
        lc = self.t[self.lead()]
        if lc == 1:
            return lc, self
        return lc, Poly({m: c / lc for m, c in self.t.items()})

    def divexact(self, f, cap=200000):
        """self / f if f divides self exactly (multivariate division by leading terms), else None."""
        if not self.t:
            return ZERO
        if len(self.t) > cap:
            return None
        lt_f = f.lead()
        c_f = f.t[lt_f]
        if len(f.t) == 1:
            q = {}
            for m, c in self.t.items():
                d = mono_div(m, lt_f)
                if d is None:
                    return None
                q[d] = c / c_f
            return Poly(q)
        if mono_div(self.lead(), lt_f) is None:
            return None
        if not _probably_divisible(self, f):
            return None
        import heapq
        r = dict(self.t)
        heap = [_RevKey(m) for m in r]
        heapq.heapify(heap)
        rest = [(mf, cf) for mf, cf in f.t.items() if mf != lt_f]
        q = {}
        while heap:
            lt_r = heapq.heappop(heap).m
            c0 = r.get(lt_r)
            if c0 is None:
                continue            # cancelled earlier (lazy deletion)
            m = mono_div(lt_r, lt_f)
            if m is None:
                return None
            del r[lt_r]
            c = c0 / c_f
            q[m] = c
            for mf, cf in rest:
                mm = mono_mul(m, mf)
                old = r.get(mm)
                if old is None:
                    r[mm] = -c * cf
                    heapq.heappush(heap, _RevKey(mm))
                else:
                    v = old - c * cf
                    if v:
                        r[mm] = v
                    else:
                        del r[mm]
        return Poly(q)

    def pretty(self, names, maxterms=12):
        if not self.t:
            return '0'
        out = []
        for k, (m, c) in enumerate(sorted(self.t.items(), key=lambda mc: mono_key(mc[0]), reverse=True)):
            if k >= maxterms:
                out.append('... (%d terms)' % len(self.t))
                break
            s = '*'.join((names[v] if p == 1 else '%s^%d' % (names[v], p)) for v, p in m)
            if not s:
                out.append(str(c))
            elif c == 1:
                out.append(s)
            else:
                out.append('%s*%s' % (c, s))
        return ' + '.join(out)


ONE = Poly.const(1)
ZERO = Poly({})


class _RevKey:
    """heap entry ordering monomials from largest to smallest"""
    __slots__ = ('m', 'k')

    def __init__(self, m):
        self.m = m
        self.k = m[::-1]

    def __lt__(self, o):
        return self.k > o.k


_PRIME = (1 << 61) - 1
_RHO = {}


def _rho(v):
    r = _RHO.get(v)
    if r is None:
        import random
        r = random.Random(v * 7919 + 13).randrange(2, _PRIME - 1)
        _RHO[v] = r
    return r


def _univariate_mod(p, x):
    """coefficients (by degree in variable x) of p with every other variable set to a fixed random value mod _PRIME"""
    out = {}
    for m, c in p.t.items():
        val = c.numerator % _PRIME * pow(c.denominator, -1, _PRIME) % _PRIME
        deg = 0
        for v, k in m:
            if v == x:
                deg = k
            else:
                val = val * pow(_rho(v), k, _PRIME) % _PRIME
        out[deg] = (out.get(deg, 0) + val) % _PRIME
    return out


def _probably_divisible(n, f):
    """False => f certainly does not divide n (random univariate specialisation mod a prime)"""
    lt = f.lead()
    x = lt[-1][0]
    fu = _univariate_mod(f, x)
    nu = _univariate_mod(n, x)
    df = max((d for d, c in fu.items() if c), default=-1)
    if df <= 0:
        return True          # specialisation degenerate: no information
    inv = pow(fu[df], -1, _PRIME)
    dn = max((d for d, c in nu.items() if c), default=-1)
    while dn >= df:
        c = nu.get(dn, 0)
        if c:
            k = c * inv % _PRIME
            for d, fc in fu.items():
                if fc:
                    nu[dn - df + d] = (nu.get(dn - df + d, 0) - k * fc) % _PRIME
        dn -= 1
    return not any(c for d, c in nu.items() if d < df)


class RF:
    """num / prod(f**k); f monic, non-constant; constants are folded into num."""
    __slots__ = ('n', 'd')

    def __init__(self, n, d=None):
        self.n = n
        self.d = d if d else {}

    def den_poly(self):
        r = ONE
        for f, k in self.d.items():
            for _ in range(k):
                r = r * f
        return r

    def is_const(self):
        return not self.d and self.n.is_const()


CANCEL = True


def _cancel(n, d):
    """try to divide the numerator by denominator factors (keeps denominators minimal)."""
    if not d or not CANCEL:
        return RF(n, d)
    if n.is_zero():
        return RF(ZERO)
    out = {}
    for f, k in d.items():
        kk = k
        while kk > 0:
            q = n.divexact(f)
            if q is None:
                break
            n = q
            kk -= 1
        if kk:
            out[f] = kk
    return RF(n, out)


def rf_add(a, b, sign=1):
    if not a.d and not b.d:
        return RF(a.n + b.n if sign > 0 else a.n - b.n)
    l = dict(a.d)
    for f, k in b.d.items():
        if l.get(f, 0) < k:
            l[f] = k

    def lift(x):
        n = x.n
        for f, k in l.items():
            for _ in range(k - x.d.get(f, 0)):
                n = n * f
        return n
    na, nb = lift(a), lift(b)
    n = na + nb if sign > 0 else na - nb
    if n.is_zero():
        return RF(ZERO)
    return _cancel(n, l)


def rf_mul(a, b):
    n = a.n * b.n
    if n.is_zero():
        return RF(ZERO)
    if not a.d and not b.d:
        return RF(n)
    d = dict(a.d)
    for f, k in b.d.items():
        d[f] = d.get(f, 0) + k
    return _cancel(n, d)


def rf_inv(a):
    """1/a ; caller has checked a != 0."""
    if a.n.is_const():
        c = a.n.cval()
        return RF(a.den_poly().scale(1 / c))
    u, f = a.n.monic()
    return RF(a.den_poly().scale(1 / u), {f: 1})


def rf_neg(a):
    return RF(-a.n, a.d)


def rf_diff(a, vi):
    """d/dx_vi of a rational function (quotient rule on the expanded denominator)."""
    if not a.d:
        return RF(a.n.diff(vi))
    # a = n / D  ->  (n' D - n D') / D^2, with D = prod f^k:  D'/D = sum k f'/f
    # a' = n'/D - n * sum_k (k f'/f) / D
    res = RF(a.n.diff(vi), dict(a.d))
    for f, k in a.d.items():
        fp = f.diff(vi)
        if fp.is_zero():
            continue
        d2 = dict(a.d)
        d2[f] = d2[f] + 1
        term = RF((a.n * fp).scale(Fraction(k)), d2)
        res = rf_add(res, term, -1)
    return res


def rf_subst(a, vi, q):
    """substitute polynomial q for x_vi in numerator and denominator factors."""
    n = a.n.subst(vi, q)
    if not a.d:
        return RF(n)
    d = {}
    for f, k in a.d.items():
        g = f.subst(vi, q)
        if g.is_const():
            c = g.cval()
            if c == 0:
                raise ZeroDivisionError('substitution makes a denominator vanish')
            n = n.scale(1 / c ** k)
            continue
        u, g = g.monic()
        n = n.scale(1 / u ** k)
        d[g] = d.get(g, 0) + k
    return _cancel(n, d)


def signpoly(r):
    """polynomial with the same sign and the same zero set as rational function r on den != 0."""
    p = r.n
    for f, k in r.d.items():
        if k % 2:
            p = p * f
    return p
