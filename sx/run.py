"""Runner:  python3-vt -m sx.run <PROPERTY> --tier quick|thorough

exit 0  property held on everything explored (KNOWN-FINDING lines allowed)
exit 1  a replayed, unlisted violation:  VIOLATION property=<id> replay=<path>
exit 2  harness error / inconclusive (solver unknown, timeout, non-reproducing counterexample)
"""
import argparse
from fractions import Fraction
import fnmatch
import hashlib
import importlib
import json
import multiprocessing as mp
import os
import random
import signal
import subprocess
import sys
import time
import traceback
from collections import namedtuple, Counter

VERIF = os.path.dirname(os.path.dirname(os.path.abspath(__file__)))
REPO = os.environ.get('SX_REPO', '/repo')

Instance = namedtuple('Instance', 'name fn params min_paths timeout')


def inst(name, fn, min_paths=1, timeout=240, **params):
    return Instance(name, fn, params, min_paths, timeout)


def load_prop(pid):
    return importlib.import_module('sx.props.%s' % pid.lower())


def _alarm(signum, frame):
    from .core import InstanceTimeout
    raise InstanceTimeout()


def _child(conn, args):
    try:
        conn.send(run_instance(args))
    except BaseException as e:        # noqa
        try:
            conn.send({'instance': args[2], 'status': 'error', 'wall_s': 0.0, 'why': ['worker failed: %r' % (e,)]})
        except Exception:
            pass
    finally:
        conn.close()


def run_pool(tasks, timeouts, opts, jobs, budget=None):
    """one forked process per instance, at most `jobs` at a time.  The in-process alarm (run_instance) ends an instance
    at its time limit; a process that does not react (a C-level loop that never returns to the interpreter) is killed
    60 s later and reported as inconclusive - never as a pass."""
    ctx = mp.get_context('fork')
    pending = list(tasks)
    running = []          # (process, conn, args, start, hard_deadline)
    while pending or running:
        if budget is not None and budget['timeouts'] >= budget['max'] and pending:
            for args in pending:
                yield {'instance': args[2], 'status': 'inconclusive', 'wall_s': 0.0, 'paths': 0, 'obligations': 0, 'discharged': 0,
                       'why': ['not run: %d instances had already hit their time limit' % budget['timeouts']]}
            pending = []
        while pending and len(running) < max(1, jobs):
            args = pending.pop(0)
            pc, cc = ctx.Pipe(duplex=False)
            p = ctx.Process(target=_child, args=(cc, args), daemon=True)
            p.start()
            cc.close()
            limit = min(timeouts[args[2]], opts.get('cap_s', 10 ** 9)) * opts.get('time_scale', 1)
            running.append((p, pc, args, time.time(), time.time() + limit + 60))
        still = []
        for p, pc, args, t0, dl in running:
            r = None
            if pc.poll(0):
                try:
                    r = pc.recv()
                except EOFError:
                    r = {'instance': args[2], 'status': 'error', 'wall_s': time.time() - t0, 'why': ['worker died without a result']}
            elif not p.is_alive():
                if pc.poll(0.2):
                    try:
                        r = pc.recv()
                    except EOFError:
                        r = None
                if r is None:
                    r = {'instance': args[2], 'status': 'error', 'wall_s': time.time() - t0, 'why': ['worker died without a result (exit code %s)' % p.exitcode]}
            elif time.time() > dl:
                p.kill()
                r = {'instance': args[2], 'status': 'inconclusive', 'wall_s': time.time() - t0, 'paths': 0, 'obligations': 0, 'discharged': 0,
                     'why': ['instance did not stop at its time limit and was killed after %ds' % int(time.time() - t0)]}
            if r is None:
                still.append((p, pc, args, t0, dl))
            else:
                if budget is not None and r.get('status') == 'inconclusive' and any('time limit' in str(w) or 'instance timeout' in str(w) for w in r.get('why', [])):
                    budget['timeouts'] += 1
                p.join(timeout=5)
                pc.close()
                yield r
        running = still
        if running:
            time.sleep(0.02)


def run_instance(args):
    pid, tier, name, opts = args
    t0 = time.time()
    out = {'instance': name, 'status': 'error', 'wall_s': 0.0}
    try:
        from . import core, geo
        from .cx import SymCx
        mod = load_prop(pid)
        geo.shim_all()
        cand = [i for i in mod.instances(tier) if i.name == name]
        if not cand:
            raise RuntimeError('instance %s not found' % name)
        ins = cand[0]
        core.reset_vars()
        eng = core.Engine(branch_timeout_ms=opts['branch_ms'], ob_timeout_ms=opts['ob_ms'],
                          max_paths=opts.get('max_paths', 4000))
        signal.signal(signal.SIGALRM, _alarm)
        limit = min(ins.timeout, opts.get('cap_s', 10 ** 9)) * opts.get('time_scale', 1)
        signal.alarm(int(limit))
        try:
            res = eng.explore(ins.fn, ins.params, SymCx)
            timed_out = False
        except core.InstanceTimeout:
            res = []
            timed_out = True
        finally:
            signal.alarm(0)
        paths = [r for r in res if r['kind'] == 'path']
        aborts = [r for r in res if r['kind'] == 'abort']
        obs = [(pi, o) for pi, r in enumerate(paths) for o in r['obligations']]
        cnt = Counter(o['status'] for _, o in obs)
        witnesses = sum(1 for r in paths if r.get('witness') == 'sat' and r['obligations'])
        cex = []
        seen = set()
        for pi, o in obs:
            if o['status'] == 'cex':
                b = core.base_name(o['name'])
                if b in seen:
                    continue
                seen.add(b)
                cex.append({'name': o['name'], 'base': b, 'detail': o.get('detail', ''), 'model': o.get('model'), 'alt_models': o.get('alt_models') or [], 'path': pi})
        unknown = [{'name': o['name'], 'detail': o.get('detail', '')} for _, o in obs if o['status'] == 'unknown'][:5]
        status = 'ok'
        why = []
        if timed_out:
            status = 'inconclusive'; why.append('instance timeout after %ds' % int(limit))
        if aborts:
            status = 'inconclusive'; why.append('%d aborted paths: %s' % (len(aborts), aborts[0]['why'][:300]))
        if cnt.get('unknown'):
            status = 'inconclusive'; why.append('%d obligations unknown: %s' % (cnt['unknown'], unknown[0]))
        if not timed_out and len(paths) < ins.min_paths:
            status = 'inconclusive'; why.append('only %d paths, expected >= %d' % (len(paths), ins.min_paths))
        if not timed_out and not aborts and witnesses == 0:
            status = 'inconclusive'; why.append('no reachability witness (vacuous harness?)')
        if eng.stats.get('assumed_nonzero', 0) and not getattr(mod, 'ALLOW_ASSUMED_NONZERO', False):
            status = 'inconclusive'; why.append('%d denominators could only be assumed non-zero' % eng.stats['assumed_nonzero'])
        if cex:
            status = 'cex'
        out.update({
            'status': status, 'why': why, 'paths': len(paths), 'aborted': len(aborts),
            'obligations': len(obs), 'discharged': cnt.get('ok', 0), 'vacuous': cnt.get('vacuous', 0),
            'by_z3': sum(1 for _, o in obs if o['status'] == 'ok' and o['how'] == 'z3'),
            'by_normal_form': sum(1 for _, o in obs if o['status'] == 'ok' and o['how'] == 'normal-form'),
            'concrete': sum(1 for _, o in obs if o['status'] == 'ok' and o['how'] == 'concrete'),
            'nontrivial': sum(1 for _, o in obs if o.get('nontrivial') and o['status'] == 'ok'),
            'witnesses': witnesses, 'cex': cex, 'unknown': unknown,
            'stats': {k: (round(v, 3) if isinstance(v, float) else v) for k, v in eng.stats.items()},
            'functions': sorted(eng.functions), 'samples': eng.path_records[:2],
            'nvars': len(core.VARS.names), 'smt_samples': eng.smt_samples,
        })
    except BaseException as e:      # noqa
        out['status'] = 'error'
        out['why'] = ['%s: %s' % (type(e).__name__, e), traceback.format_exc()[-1500:]]
    out['wall_s'] = round(time.time() - t0, 2)
    return out


def replay_subprocess(pid, instance, values, timeout=300):
    payload = json.dumps({'property': pid, 'instance': instance, 'values': values})
    env = dict(os.environ)
    env['PYTHONPATH'] = VERIF + os.pathsep + REPO
    env.pop('SX_SYMBOLIC', None)
    try:
        p = subprocess.run([sys.executable, '-m', 'sx.replay', '-'], input=payload, capture_output=True,
                           text=True, timeout=timeout, cwd=VERIF, env=env)
    except subprocess.TimeoutExpired:
        return {'reproduced': False, 'error': 'replay timeout'}
    last = [l for l in p.stdout.strip().splitlines() if l.startswith('{')]
    if not last:
        return {'reproduced': False, 'error': 'replay produced no result: %s' % (p.stderr[-400:],)}
    return json.loads(last[-1])


def load_known():
    path = os.path.join(VERIF, 'known_findings.json')
    if not os.path.exists(path):
        return []
    return json.load(open(path)).get('findings', [])


def main(argv=None):
    ap = argparse.ArgumentParser()
    ap.add_argument('property')
    ap.add_argument('--tier', default=os.environ.get('VERIF_TIER', 'quick'))
    ap.add_argument('--jobs', type=int, default=int(os.environ.get('SX_JOBS', '16')))
    ap.add_argument('--only', default=None)
    ap.add_argument('--list', action='store_true')
    ap.add_argument('--verbose', '-v', action='store_true')
    ap.add_argument('--no-evidence', action='store_true')
    a = ap.parse_args(argv)
    pid = a.property.upper()
    tier = a.tier if a.tier in ('quick', 'thorough') else 'quick'
    seed = int(os.environ.get('VERIF_SEED', '0') or 0)
    t0 = time.time()
    sys.path.insert(0, VERIF)
    mod = load_prop(pid)
    instances = list(mod.instances(tier))
    if a.only:
        instances = [i for i in instances if a.only in i.name]
    if a.list:
        for i in instances:
            print(i.name)
        return 0
    names = [i.name for i in instances]
    assert len(set(names)) == len(names), 'duplicate instance names'
    order = list(instances)
    random.Random(seed).shuffle(order)
    order.sort(key=lambda i: -i.timeout)        # long ones first
    opts = {'branch_ms': 8000 if tier == 'quick' else 30000, 'ob_ms': 20000 if tier == 'quick' else 90000,
            'time_scale': 1 if tier == 'quick' else 3, 'cap_s': 240 if tier == 'quick' else 10 ** 9}
    opts.update(getattr(mod, 'OPTS', {}).get(tier, {}))
    from . import selfcheck
    sc = selfcheck.run(seed)
    if sc['problems']:
        print('[%s] ENCODING SELF-CHECK FAILED: %s' % (pid, sc['problems'][:3]))
        return 2
    results = []
    extra = getattr(mod, 'extra_checks', None)
    def _report(r):
        results.append(r)
        if a.verbose or r['status'] not in ('ok',):
            print('[%s] %-60s %-12s paths=%s obs=%s/%s %.1fs %s' % (
                pid, r['instance'][:60], r['status'], r.get('paths'), r.get('discharged'), r.get('obligations'),
                r['wall_s'], '; '.join(map(str, r.get('why', [])))[:600]), flush=True)
    # when instance after instance runs into its time limit (a change that makes the code under test explode
    # symbolically), the run is cut short: the verdict is inconclusive either way, and it should not take hours
    budget = {'timeouts': 0, 'max': 4 if tier == 'quick' else 40}
    for r in run_pool([(pid, tier, i.name, opts) for i in order], {i.name: i.timeout for i in order}, opts, a.jobs, budget):
        _report(r)
    extra_res = []
    if extra is not None and not a.only:
        extra_res = extra(tier, seed)     # list of dicts: name, status (ok|cex|inconclusive), detail, counts
        for r in extra_res:
            if a.verbose or r['status'] != 'ok':
                print('[%s] extra %-50s %s %s' % (pid, r['name'], r['status'], str(r.get('detail', ''))[:300]), flush=True)
    # ---- counterexamples: replay on the unpatched float code
    known = [k for k in load_known() if k['property'] == pid]
    violations = []
    known_hits = []
    nonrepro = []
    from concurrent.futures import ThreadPoolExecutor
    todo = [(r, c) for r in results for c in r.get('cex', []) if c.get('model') is not None]
    with ThreadPoolExecutor(max_workers=max(1, min(a.jobs, 16))) as tp:
        reps = list(tp.map(lambda rc: replay_subprocess(pid, rc[0]['instance'], rc[1]['model']), todo))
    for (r, c), rp in zip(todo, reps):
        c['replay'] = rp
        if not rp.get('reproduced'):
            # z3's model may sit on a tolerance boundary floats cannot resolve: try the generic candidate(s) as well
            cands = list(c.get('alt_models') or [])
            # stress candidates: the same values at micro / huge scale (printed in exponent notation, far from 1.0).
            # A replay is an ordinary concrete test of the obligations, so any candidate that fails them is genuine.
            base = (c.get('alt_models') or [c['model']])[0]       # the generic candidate has no zero entries
            for fac in (Fraction(1, 2 ** 30), Fraction(2 ** 30)):
                try:
                    # (harness convention: point coordinates have upper-case names; parameters, knots, weights lower-case)
                    up = [abs(Fraction(v)) for k, v in base.items() if k[:1].isupper()] or [Fraction(1)]
                    floor = min(Fraction(1), max(up) * fac)
                    c1 = {k: str(Fraction(v) * fac) if k[:1].isupper() else str(v) for k, v in base.items()}
                    c2 = {k: str(Fraction(v) * fac) for k, v in base.items()}
                    c1['__floor__'] = c2['__floor__'] = str(floor)
                    cands += [c1, c2]
                except Exception:
                    pass
            for am in cands:
                rp2 = replay_subprocess(pid, r['instance'], am)
                if rp2.get('reproduced'):
                    c['model'], c['replay'] = am, rp2
                    break
    for r in results:
        for c in r.get('cex', []):
            key = '%s::%s' % (r['instance'], c['base'])
            if c.get('model') is None:
                nonrepro.append((key, 'no model could be produced'))
                continue
            rp = c['replay']
            if rp.get('reproduced'):
                hit = [k for k in known if fnmatch.fnmatchcase(key, k['match'])]
                if hit:
                    known_hits.append((key, hit[0], c, rp))
                else:
                    violations.append((key, r['instance'], c, rp))
            else:
                nonrepro.append((key, rp.get('error') or rp.get('detail') or 'obligations hold in float replay'))
    for r in extra_res:
        if r['status'] == 'cex':
            key = '%s::%s' % (r['name'], r.get('base', 'extra'))
            hit = [k for k in known if fnmatch.fnmatchcase(key, k['match'])]
            if hit:
                known_hits.append((key, hit[0], r, {}))
            else:
                violations.append((key, r['name'], {'name': r['name'], 'detail': r.get('detail'), 'model': r.get('model', {})},
                                   {'failed': [[r['name'], r.get('detail')]]}))
    printed = set()
    for key, k, c, rp in known_hits:
        line = 'KNOWN-FINDING: property=%s %s' % (pid, k['what'])
        if line not in printed:
            print(line)
            printed.add(line)
    replay_paths = []
    os.makedirs(os.path.join(VERIF, 'replays'), exist_ok=True)
    for key, iname, c, rp in violations:
        h = hashlib.sha1(key.encode()).hexdigest()[:10]
        path = os.path.join(VERIF, 'replays', '%s-%s.json' % (pid, h))
        json.dump({'property': pid, 'instance': iname, 'obligation': c.get('name'), 'detail': c.get('detail'),
                   'values': c.get('model'), 'float_replay': rp,
                   'how_to_replay': 'cd /verif && python3-vt -m sx.replay %s' % path}, open(path, 'w'), indent=1)
        replay_paths.append(path)
        print('VIOLATION property=%s replay=%s' % (pid, path))
        print('   instance=%s obligation=%s :: %s' % (iname, c.get('name'), str(c.get('detail'))[:300]))
        print('   float replay: %s' % (str(rp.get('failed'))[:400],))
    incon = [r for r in results if r['status'] in ('inconclusive', 'error')]
    incon += [r for r in extra_res if r['status'] == 'inconclusive']
    for key, why in nonrepro:
        print('NON-REPRODUCING counterexample %s: %s' % (key, str(why)[:300]))
    # ---- solver diff (thorough): sampled nonlinear obligation queries re-decided by cvc5
    sc['cvc5'] = None
    if tier == 'thorough':
        samples = [x for r in results for x in (r.get('smt_samples') or [])]
        random.Random(seed).shuffle(samples)
        sc['cvc5'] = selfcheck.cvc5_diff(samples[:12])
        if sc['cvc5']['disagree']:
            print('[%s] SOLVER DISAGREEMENT z3 vs cvc5: %s' % (pid, sc['cvc5']['details'][:3]))
            incon.append({'name': 'cvc5-diff', 'status': 'inconclusive', 'why': sc['cvc5']['details'][:3]})
    # ---- evidence
    wall = time.time() - t0
    if not a.no_evidence and not a.only:
        write_evidence(pid, tier, seed, mod, results, extra_res, violations, known_hits, nonrepro, incon, wall, opts, sc)
    ok = [r for r in results if r['status'] == 'ok']
    print('[%s] tier=%s instances=%d ok=%d cex=%d inconclusive=%d paths=%d obligations=%d discharged=%d wall=%.1fs' % (
        pid, tier, len(results), len(ok), sum(1 for r in results if r['status'] == 'cex'), len(incon),
        sum(r.get('paths', 0) for r in results), sum(r.get('obligations', 0) for r in results),
        sum(r.get('discharged', 0) for r in results), wall))
    if violations:
        return 1
    if incon or nonrepro:
        for r in incon[:10]:
            print('INCONCLUSIVE %s: %s' % (r.get('instance', r.get('name')), '; '.join(map(str, r.get('why', [r.get('detail')])))[:500]))
        return 2
    return 0


def write_evidence(pid, tier, seed, mod, results, extra_res, violations, known_hits, nonrepro, incon, wall, opts, sc=None):
    funcs = sorted(set(f for r in results for f in r.get('functions', [])))
    tot = lambda k: sum(r.get(k, 0) or 0 for r in results)
    st = Counter()
    for r in results:
        for k, v in (r.get('stats') or {}).items():
            st[k] += v
    samples = []
    for r in results[:40]:
        for s in r.get('samples', [])[:1]:
            samples.append({'instance': r['instance'], 'paths': r.get('paths'), 'path_condition_tail': s['path_condition'],
                            'obligations': s['obligations']})
        if len(samples) >= 4:
            break
    for e in extra_res[:3]:
        samples.append({'extra': e['name'], 'detail': str(e.get('detail', ''))[:200], 'counts': e.get('counts')})
    if not samples:
        samples = [{'note': 'no path finished'}]
    n_ob = tot('obligations') + sum((e.get('counts') or {}).get('obligations', 0) for e in extra_res)
    n_dis = tot('discharged') + sum((e.get('counts') or {}).get('discharged', 0) for e in extra_res)
    n_nt = tot('nontrivial') + sum((e.get('counts') or {}).get('discharged', 0) for e in extra_res)
    ev = {
        'property_id': pid, 'tier': tier, 'seed': seed, 'level': 'other',
        'coverage': {
            'explanation': ('bounded symbolic execution of the real geomdl functions from %s (module-attribute float/math '
                            'shims, exact rational-function normal form) with every branch and every obligation decided by '
                            'z3 over ALL real values of the symbolic inputs; discrete structure (degrees, sizes, knot '
                            'multiplicity patterns, histories) enumerated from the instance families listed under bounds. '
                            'Counterexamples are replayed on the unshimmed float code before being reported.' % REPO),
            'evaluations': max(1, n_ob),
            'distinct_nontrivial': n_nt,
            'rule': ('one evaluation = one obligation on one feasible path of one instance; distinct by (instance, path, '
                     'obligation name); non-trivial = at least one side depends on a symbolic input (constant-vs-constant '
                     'and vacuous ones are not counted)'),
            'samples': samples,
            'instances': len(results), 'instances_ok': sum(1 for r in results if r['status'] == 'ok'),
            'paths': tot('paths'), 'aborted_paths': tot('aborted'),
            'obligations': n_ob, 'discharged': n_dis,
            'discharged_by_z3_query': tot('by_z3'), 'discharged_identically_zero_after_normalisation': tot('by_normal_form'),
            'discharged_concrete_structure': tot('concrete'),
            'reachability_witnesses': tot('witnesses'),
            'branch_queries': st.get('branch_queries', 0), 'obligation_queries': st.get('ob_queries', 0),
            'solver_seconds': round(st.get('solver_s', 0.0), 2), 'solver_unknown': st.get('unknown', 0),
            'forks': st.get('forks', 0), 'forced_branches': st.get('forced', 0),
            'denominators_assumed_nonzero': st.get('assumed_nonzero', 0),
            'positivity_certificates': st.get('certs', 0),
            'functions_encoded': funcs,
            'bounds': getattr(mod, 'BOUNDS', {}).get(tier, getattr(mod, 'BOUNDS', {})),
            'outside_bounds': getattr(mod, 'OUTSIDE', []),
            'per_instance': [{'instance': r['instance'], 'status': r['status'], 'paths': r.get('paths'),
                              'obligations': r.get('obligations'), 'discharged': r.get('discharged'), 'wall_s': r['wall_s']}
                             for r in sorted(results, key=lambda r: r['instance'])],
            'extra_checks': [{'name': e['name'], 'status': e['status'], 'counts': e.get('counts')} for e in extra_res],
            'solver': 'z3 %s' % _z3version(), 'query_timeouts_ms': {'branch': opts['branch_ms'], 'obligation': opts['ob_ms']},
            'known_findings_hit': sorted(set(k['what'] for _, k, _, _ in known_hits)),
            'non_reproducing_counterexamples': [k for k, _ in nonrepro],
            'inconclusive': [r.get('instance', r.get('name')) for r in incon],
            'encoding_validation': sc,
            'exhaustive': False,
        },
        'assumptions': list(getattr(mod, 'ASSUMPTIONS', [])) + [
            'exact real arithmetic stands for IEEE doubles (float(), round-to-N-decimals are the identity); rounding error is outside the claim',
            'z3 verdicts are trusted; unknown/timeouts make the run inconclusive (exit 2), never a pass',
        ],
        'wall_s': round(wall, 2),
        'violations': len(violations),
    }
    os.makedirs(os.path.join(VERIF, 'evidence'), exist_ok=True)
    json.dump(ev, open(os.path.join(VERIF, 'evidence', '%s.json' % pid), 'w'), indent=1, default=str)


def _z3version():
    try:
        import z3
        return z3.get_version_string()
    except Exception:
        return '?'


if __name__ == '__main__':
    sys.exit(main())
