#!/bin/bash
# usage: try_seed.sh <seed-id> <PROP> [tier] : apply the seeded patch in a scratch worktree of /repo HEAD,
# run the check against it (SX_REPO), remove the worktree.  (Equivalent to apply/run/undo in /repo, but
# safe to run while other checks use /repo.)
set -u
S=/verif/seeded/$1/patch.diff; P=$2; T=${3:-quick}
WT=$(mktemp -d /tmp/tseed-XXXXXX); rmdir $WT
git -C /repo worktree add -q --detach $WT HEAD || exit 9
git -C $WT apply $S || { git -C /repo worktree remove --force $WT; echo "seed=$1 PATCH DOES NOT APPLY"; exit 9; }
cd /verif && SX_REPO=$WT timeout 7200 python3-vt -m sx.run $P --tier $T --no-evidence > /tmp/try_$1_$P.log 2>&1; rc=$?
git -C /repo worktree remove --force $WT
echo "seed=$1 prop=$P tier=$T exit=$rc nviol=$(grep -c '^VIOLATION' /tmp/try_$1_$P.log) :: $(grep '^VIOLATION' -A2 /tmp/try_$1_$P.log | head -3 | tr '\n' ' ' | cut -c1-330)"
