#!/bin/bash
# seed_matrix.sh [jobs] : re-verifies every seed against /repo HEAD (verify_seed.sh) and runs the quick check of its
# property against it (try_seed.sh); writes /verif/seeded/RESULTS.md
cd /verif
J=${1:-4}
tmp=$(mktemp -d /tmp/seedmx-XXXXXX)
one() {
  d=$1; tmp=$2
  s=$(basename $d)
  p=$(python3 -c "import json;print(json.load(open('$d/meta.json'))['property'])")
  v=$(tools/verify_seed.sh $d 2>/dev/null | tail -1)
  r=$(tools/try_seed.sh $s $p quick 2>/dev/null | tail -1)
  rc=$(echo "$r" | sed -E 's/.*exit=([0-9]+).*/\1/')
  first=$(echo "$r" | sed -E 's/.*:: //' | cut -c1-160 | tr '|' '/')
  caught=no; [ "$rc" = "1" ] && caught=yes; [ "$rc" = "2" ] && caught="inconclusive (exit 2)"
  echo "| $s | $p | $v | $rc | $caught | $first |" > $tmp/$s.row
  echo "$s $p $v exit=$rc"
}
export -f one
ls -d seeded/C*/ | xargs -P $J -I{} bash -c 'one {} '$tmp
out=seeded/RESULTS.md
echo "| seed | property | still a valid seed at HEAD | check exit | caught | first report |" > $out
echo "|---|---|---|---|---|---|" >> $out
for f in $(ls $tmp/*.row | sort -V); do cat $f >> $out; done
rm -rf $tmp
