#!/bin/bash
# seed_matrix.sh : re-verifies every seed against /repo HEAD (verify_seed.sh) and runs the quick check of its property
# against it (try_seed.sh); writes /verif/seeded/RESULTS.md
cd /verif
out=seeded/RESULTS.md
echo "| seed | property | still a valid seed at HEAD | check exit | caught | first report |" > $out
echo "|---|---|---|---|---|---|" >> $out
for d in seeded/C*/; do
  s=$(basename $d)
  p=$(python3 -c "import json;print(json.load(open('$d/meta.json'))['property'])")
  v=$(tools/verify_seed.sh $d 2>/dev/null | tail -1)
  r=$(tools/try_seed.sh $s $p quick 2>/dev/null | tail -1)
  rc=$(echo "$r" | sed -E 's/.*exit=([0-9]+).*/\1/')
  first=$(echo "$r" | sed -E 's/.*:: //' | cut -c1-160 | tr '|' '/')
  caught=no; [ "$rc" = "1" ] && caught=yes; [ "$rc" = "2" ] && caught="inconclusive (exit 2)"
  echo "| $s | $p | $v | $rc | $caught | $first |" >> $out
  echo "$s $p $v exit=$rc"
done
