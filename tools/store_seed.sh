#!/bin/bash
# store_seed.sh <PROP>  : copies /tmp/wt-<PROP>/_out/{1,2} to /verif/seeded/<PROP>-k and removes the worktree
id=$1
for k in 1 2 3; do [ -d /tmp/wt-$id/_out/$k ] || continue; d=/verif/seeded/$id-$k; mkdir -p $d; cp /tmp/wt-$id/_out/$k/patch.diff /tmp/wt-$id/_out/$k/demo.py /tmp/wt-$id/_out/$k/meta.json $d/; python3 - $d <<'PY'
import json,sys
p=sys.argv[1]+'/meta.json'; m=json.load(open(p))
m['confirmed_by_me']='tools/verify_seed.sh in a scratch worktree of /repo HEAD: patch applies, demo passes clean (exit 0), demo fails patched (exit!=0), test-suite 222 passed with the patch'
json.dump(m,open(p,'w'),indent=1)
PY
done
git -C /repo worktree remove --force /tmp/wt-$id
