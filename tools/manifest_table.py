"""Per-property manifest entries (text = assurance given, note = trusted base / bounds)."""
COMMON_NOTE = ('Trusted: z3 5.1, the Fraction-polynomial normal form (sx/poly.py), the proxy semantics (sx/core.py), the '
               'definition-shaped oracles (sx/oracles.py). Reals stand for floats; float()/round-to-N-decimals are the identity. ')

CHECKS = {
    'C01': {
        'text': 'For every instance of the families (degrees, knot multiplicity patterns, sizes, sample sizes) z3 shows for ALL parameters, control points and positive weights (and all knot values for p<=3) that evaluate_single / evaluate_list / derivatives(order 0) / evaluator.evaluate / the sampled grid equal the Cox-de Boor definition on every feasible path of the real code.',
        'note': COMMON_NOTE + 'Bounds: quick p<=3, thorough p<=5; <=3 distinct interior knots; grids up to 5 (9 thorough) samples; surfaces to (3,3), volumes to (2,2,2).',
    },
}

_TODO = 'check not built yet in this session (work in progress, see DESIGN.md section 4)'
NOT_APPLICABLE = {('C%02d' % i): _TODO for i in range(1, 21) if ('C%02d' % i) not in CHECKS}

NOTES = ('All checks: exit 0 = every path explored, every obligation unsat-discharged; exit 1 = VIOLATION (replayed in floats); '
         'exit 2 = inconclusive/harness error (solver unknown, timeout, non-reproducing model). Known genuine defects are '
         'listed in known_findings.json.')
