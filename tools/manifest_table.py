"""Per-property manifest entries (text = assurance given, note = trusted base / bounds)."""
COMMON_NOTE = ('Trusted: z3 5.1, the Fraction-polynomial normal form (sx/poly.py), the proxy semantics (sx/core.py), the '
               'definition-shaped oracles (sx/oracles.py). Reals stand for floats; float()/round-to-N-decimals are the identity. ')

CHECKS = {
    'C01': {
        'text': 'For every instance of the families (degrees, knot multiplicity patterns, sizes, sample sizes) z3 shows for ALL parameters, control points and positive weights (and all knot values for p<=3) that evaluate_single / evaluate_list / derivatives(order 0) / evaluator.evaluate / the sampled grid equal the Cox-de Boor definition on every feasible path of the real code.',
        'note': COMMON_NOTE + 'Bounds: quick p<=3, thorough p<=5; <=3 distinct interior knots; grids up to 5 (9 thorough) samples; surfaces to (3,3), volumes to (2,2,2).',
    },
    'C02': {
        'text': 'Derivatives returned by both evaluator families, the hodograph constructors and tangent/normal are shown equal (for all parameters, nets, weights) to the FORMAL derivative of the Cox-de Boor definition on the polynomial piece containing the parameter (rational shapes: additionally the inductive quotient-rule characterisation for orders >= 2); unit length / orthogonality modulo s^2 = arg rewrite rules.',
        'note': COMMON_NOTE + 'Bounds: curves p<=3 (4), orders 0..p+2, rational orders <=2 (3); surfaces degrees <=2 (3), rational surface orders <=3 on the bilinear patch; derivative from the right, u < domain end; normalised vectors assumed non-zero.',
    },
    'C03': {
        'text': 'Span search (linear == binary == definition), basis_function (>=0, sum 1, == Cox-de Boor, == one/all variants), derivative variants (== formal derivative, sum 0), multiplicity, knot vector generation / normalisation / validation: decided for all parameters (and all knot values for p<=3) per multiplicity pattern.',
        'note': COMMON_NOTE + 'Bounds: p<=5 (7); <=3 interior knots; snap-zone precondition (parameter equal to a knot or >1e-5 away); ders order <= degree.',
    },
    'C04': {
        'text': 'For all insertion parameters (inside a span or on a knot of any multiplicity, enumerated by the explorer), all evaluation parameters, nets and weights: the shape is unchanged after insert_knot (operations and object wrappers), knot vector/sizes grow as specified, over-multiplicity is rejected leaving the object unchanged; histories of 2 (3) insertions with independent symbolic parameters.',
        'note': COMMON_NOTE + 'Bounds: curves p<=3 (4), surfaces degrees<=2 (3,2), volumes degrees<=2; clamped knot vectors; snap-zone precondition on the inserted parameter.',
    },
    'C05': {
        'text': 'refine_knotvector for every direction subset and density, and helper-level knot_refinement with explicit / symbolic additional knots: evaluated points unchanged for all parameters, nets, weights; refined knot vector equals the dyadic specification; unselected directions untouched.',
        'note': COMMON_NOTE + 'Bounds: densities<=2 (3), curves p<=3 (4), surfaces degrees<=2, volumes degrees<=2; concrete knots at object level.',
    },
    'C06': {
        'text': 'insert r then remove r2<=r (any direction, one or several directions per call, operations and wrappers), and refine-then-remove: evaluated points equal the original for all parameters/nets/weights/insertion parameters, sizes and knot vectors reduced exactly, control points restored when r2==r.',
        'note': COMMON_NOTE + 'Bounds: curves p<=3 (4), surfaces degrees<=2 (3), volumes degrees<=2 (3); removable = created by insertion/refinement.',
    },
    'C07': {
        'text': 'split_curve / split_surface_u|v at any interior parameter and decompose_curve / decompose_surface(u|v|uv): every piece equals the original under the affine map of its domain for all local parameters, nets, weights; input unmodified; domain ends rejected; piece count/order/Bezier knot vectors as specified.',
        'note': COMMON_NOTE + 'Bounds: curves p<=3 (4), surfaces to (3,2) with unequal degrees and >=2 interior knots; snap-zone precondition on the split parameter.',
    },
    'C08': {
        'text': 'degree_elevation for p=1..8, num=1..4 (points of dimension 2-4 and rows of points): the elevated polygon defines the same Bezier curve for ALL control points and parameters (Bernstein oracle), ends fixed, stepwise == direct; degree_reduction of an exact elevation restores the polygon for every degree 2..10; non-Bezier input / num<=0 rejected.',
        'note': COMMON_NOTE + 'Bounds: degrees 1..8 (10), num 1..4; one path per instance (no data-dependent branches).',
    },
    'C09': {
        'text': 'All setter histories of length <= 3 over {ctrlpts, weights, ctrlptsw, set_ctrlpts} (with and without intermediate reads) on NURBS curve/surface/volume keep ctrlptsw == (P w, w), ctrlpts == P, weights == w for all symbolic values; helper conversions mutually inverse; GridWeighted applies each point its own weight and follows the weight setter; bspline<->nurbs conversions and nurbs_to_bspline on genuinely rational input evaluate identically; weight scaling moves no point.',
        'note': COMMON_NOTE + 'Bounds: curve 4 pts, surface 2x3, volume 2x2x3 (+larger in thorough); grids up to 3x2 (4x3).',
    },
    'C10': {
        'text': 'translate / scale / rotate(axis 0,1,2) on curves, surfaces, volumes and containers, in place or not: every evaluated point moves by the affine map (rotation: symbolic (cos, sin) on the unit circle = any angle, about the start point of the first shape), weights/knots unchanged, input untouched unless inplace.',
        'note': COMMON_NOTE + 'Bounds: degrees <= 3, containers of 2, clamped and unclamped curves.',
    },
    'C11': {
        'text': 'Assume-guarantee: (1) compute_params_curve/surface equal the chord-length/centripetal definition (symbolic data, nested square roots) and satisfy their contract, compute_knot_vector(2) clamped/non-decreasing; (2) with the parameter functions replaced by a stub returning SYMBOLIC increasing parameters (n<=4) or fixed rational families (n<=8/12), interpolate_curve/surface pass through every data point and approximate_curve/surface interpolate ends/corners and satisfy the normal equations, for all data points.',
        'note': COMMON_NOTE + 'End-to-end runs with symbolic chord-length parameters are out of reach; 13..40 data points outside.',
    },
    'C12': {
        'text': 'Bounded histories read-all ; mutate ; read-all (every public mutator, symbolic mutator arguments) on BSpline/NURBS curves, surfaces, volumes: every derived view (ctrlpts, weights, ctrlptsw, ctrlpts2d, evalpts, sample sizes, tessellation vertices/faces, bbox) equals the view of a fresh object built from the definition; deep copies independent in both directions; container aggregates.',
        'note': COMMON_NOTE + 'Histories of length 3 (quick) / 4 with ordered mutator pairs (thorough). Known finding: SurfaceContainer vertices/faces cache after editing a contained surface (the evalpts variant was repaired in /repo).',
    },
    'C13': {
        'text': 'With every control point its own symbol and pairwise different sizes: ctrlpts2d, Surface/VolumeManager, find_ctrlpts, flips, transpose, extract_curves/construct_surface, extract_surfaces/construct_volume (u,v,w), extract_isosurface and sweep_vector all address the point the evaluators (== Cox-de Boor definition) use for the same (u,v,w).',
        'note': COMMON_NOTE + 'Bounds: nets 2x3, 3x2, 3x4, 2x3x4, 3x2x2, 4x3x2 for the instance runs; in addition the flat index expressions of the current source are decided for ALL sizes 1..64 by an AST -> z3 (Int) check (in range, injective, convention).',
        'technique': 'bounded symbolic execution + z3 on nets with pairwise different sizes; AST -> z3 integer encoding of the flat index expressions for all sizes 1..64',
    },
    'C14': {
        'text': 'export -> import round trips with every number a symbol printed as an opaque token: JSON (curves, surfaces with spline/freeform/container trims, volumes, containers of 1-3), smesh, vmesh, txt (1-D/2-D, custom separators), csv, compatibility *_file helpers: degrees, sizes, knot vectors, control points, weights, delta, trims and evaluated points identical; documented row/column layout of the files.',
        'note': COMMON_NOTE + 'File system = in-memory map, json = real json with token strings (symbolic mode); real files / real json in float replay. YAML/libconfig not installed.',
    },
    'C15': {
        'text': 'Triangular / trim / quad tessellators through Surface.tessellate for sample sizes and vertex spacings of the family: ids consecutive, faces reference existing vertices, vertex positions == Cox-de Boor definition at the stored (u,v) for ALL control points/weights; the concrete (u,v) triangles cover EVERY symbolic query point of the open square exactly once with one orientation (+ edge sharing, Euler characteristic 1); rectangular trims (both senses) remove exactly the trimmed region up to one cell; OBJ/OFF/ASCII-STL of 1-3 surfaces parse back to exactly this mesh (offsets, counts, facet normals).',
        'note': COMMON_NOTE + 'Bounds: sample sizes 2..6 (9), spacings 1..3 (4); binary STL through a struct.pack model (exact fields, no binary32 rounding); OBJ vertex normals outside; float drift of the accumulated parameter outside.',
    },
    'C16': {
        'text': 'lu_solve / lu_factor / matrix_inverse / matrix_determinant / matrix_pivot / lu_decomposition satisfy A x = b, A A^-1 = I, Leibniz, genuine permutation, L U = A for ALL symbolic matrices of the stated sizes on every pivoting path; diagonally dominant and collocation matrices always return; two-call histories (memoised identity matrix); vector/matrix helpers, binomial, linspace, frange equal their definitions.',
        'note': COMMON_NOTE + 'Bounds: n<=3 (4 for lu_solve), pivoting routines n=3 partly concrete in quick; results claimed only when a result is returned. (The matrix_determinant zero-pivot defect found here was repaired in /repo.)',
    },
    'C17': {
        'text': 'find_span_func linear vs binary, evaluator default vs alternative, normalize_kv True vs False under a SYMBOLIC affine knot range (alpha>0, beta), all give identical points/derivatives (scaled by alpha^-k) for all parameters/nets/weights; the lru_cache maxsize expressions extracted from the current source are checked by CrossHair for every decimal GEOMDL_CACHE_SIZE (or unset), plus symbolic C04/C06/C16 runs in subprocesses under {unset,1,16,1024}.',
        'note': COMMON_NOTE + 'num_procs in {2,4,8} is covered through a worker-pool MODEL (order-preserving map over copied arguments/results); real scheduling and worker-private state are not. CrossHair verdict trusted for the str->int conversion; Bounds: curves p<=3, surfaces degrees<=2 (3,2), one volume.',
        'technique': 'bounded symbolic execution + z3 (pairs of configurations); CrossHair symbolic execution of the AST-extracted lru_cache maxsize expressions over a symbolic environment string',
    },
    'C18': {
        'text': 'On every path the evaluated coordinate is exhibited as sum_j c_j Q_j over the active control points only, with identical coefficients for all coordinates, sum c_j = 1 and c_j >= 0 (z3), i.e. membership in the convex hull; bounding box contains all control points and is attained; clamped shapes start/end at corner control points; sampled length >= chord and <= control polygon (where z3 decides).',
        'note': COMMON_NOTE + 'Bounds: curves p<=3 (4), surfaces to (2,2) (rational to (2,1)), volumes (1,1,2); bbox n<=4 with two symbolic points; length sample sizes 2-3.',
    },
    'C19': {
        'text': '__eq__/__ne__ executed on pairs that differ in exactly one component by a symbolic delta (every homogeneous coordinate, weight, knot) or in a discrete component (degree, size, kind, rationality, dimension): equal only if |delta| < 1e-3, unequal only if delta != 0, symmetric, reflexive, deep copies equal.',
        'note': COMMON_NOTE + 'The property leaves the tolerance open; 1e-3 is demanded as an upper bound on it. Shapes: curve p2, surface (1,2), volume (1,1,1) (+ larger in thorough).',
    },
    'C20': {
        'text': 'ray.intersect: 2-D symbolic rays (status and Cramer parameters), 3-D constructed intersecting / skew / parallel pairs; is_left == determinant; wn_poly == orientation-sign oracle on fully symbolic triangles and == even-odd crossing oracle for symbolic query points on concrete grid polygons; convex_hull (ccw, all points left of every edge); voxel membership with the documented padding, voxel grids cover the box, voxelize fills exactly the hit cells; find_ctrlpts returns exactly the points with non-vanishing basis functions.',
        'note': COMMON_NOTE + 'Fully symbolic polygons only for triangles; voxel grids 2..3 (4); num_procs>1 through the worker-pool model only.',
    },
}

_TODO = 'check not built yet in this session (work in progress, see DESIGN.md section 4)'
NOT_APPLICABLE = {('C%02d' % i): _TODO for i in range(1, 21) if ('C%02d' % i) not in CHECKS}

NOTES = ('All checks: exit 0 = every path explored, every obligation unsat-discharged; exit 1 = VIOLATION (replayed in floats); '
         'exit 2 = inconclusive/harness error (solver unknown, timeout, non-reproducing model). Known genuine defects are '
         'listed in known_findings.json.')
