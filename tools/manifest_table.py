"""Per-property manifest entries (text = assurance given, note = trusted base / bounds)."""
COMMON_NOTE = ('Trusted: z3 5.1, the Fraction-polynomial normal form (sx/poly.py), the proxy semantics (sx/core.py), the '
               'definition-shaped oracles (sx/oracles.py). Reals stand for floats; float()/round-to-N-decimals are the identity. ')

CHECKS = {
    'C01': {
        'text': 'For every instance of the families (degrees, knot multiplicity patterns, sizes, sample sizes) z3 shows for ALL parameters, control points and positive weights (and all knot values for p<=3) that evaluate_single / evaluate_list / derivatives(order 0) / evaluator.evaluate / the sampled grid equal the Cox-de Boor definition on every feasible path of the real code.',
        'note': COMMON_NOTE + 'Bounds: quick p<=3, thorough p<=5; <=3 distinct interior knots; grids up to 5 (9 thorough) samples; surfaces to (3,3), volumes to (2,2,2).',
    },
    'C02': {
        'text': 'Derivatives returned by both evaluator families, the hodograph constructors and tangent/normal are shown equal (for all parameters, nets, weights) to the FORMAL derivative of the Cox-de Boor definition on the polynomial piece containing the parameter (rational shapes: additionally the inductive quotient-rule characterisation for orders >= 2); unit length / orthogonality modulo s^2 = arg rewrite rules.',
        'note': COMMON_NOTE + 'Bounds: curves p<=3 (4), orders 0..p+2, rational orders <=2 (3); surfaces degrees <=2 (3), rational surface orders <=3 on the bilinear patch; derivative from the right, u < domain end; normalised vectors assumed non-zero.',
    },
    'C03': {
        'text': 'Span search (linear == binary == definition), basis_function (>=0, sum 1, == Cox-de Boor, == one/all variants), derivative variants (== formal derivative, sum 0), multiplicity, knot vector generation / normalisation / validation: decided for all parameters (and all knot values for p<=3) per multiplicity pattern.',
        'note': COMMON_NOTE + 'Bounds: p<=5 (7); <=3 interior knots; snap-zone precondition (parameter equal to a knot or >1e-5 away); ders order <= degree.',
    },
    'C04': {
        'text': 'For all insertion parameters (inside a span or on a knot of any multiplicity, enumerated by the explorer), all evaluation parameters, nets and weights: the shape is unchanged after insert_knot (operations and object wrappers), knot vector/sizes grow as specified, over-multiplicity is rejected leaving the object unchanged; histories of 2 (3) insertions with independent symbolic parameters.',
        'note': COMMON_NOTE + 'Bounds: curves p<=3 (4), surfaces degrees<=2 (3,2), volumes degrees<=2; clamped knot vectors; snap-zone precondition on the inserted parameter.',
    },
    'C05': {
        'text': 'refine_knotvector for every direction subset and density, and helper-level knot_refinement with explicit / symbolic additional knots: evaluated points unchanged for all parameters, nets, weights; refined knot vector equals the dyadic specification; unselected directions untouched.',
        'note': COMMON_NOTE + 'Bounds: densities<=2 (3), curves p<=3 (4), surfaces degrees<=2, volumes degrees<=2; concrete knots at object level.',
    },
    'C06': {
        'text': 'insert r then remove r2<=r (any direction, one or several directions per call, operations and wrappers), and refine-then-remove: evaluated points equal the original for all parameters/nets/weights/insertion parameters, sizes and knot vectors reduced exactly, control points restored when r2==r.',
        'note': COMMON_NOTE + 'Bounds: curves p<=3 (4), surfaces degrees<=2 (3), volumes degrees<=2 (3); removable = created by insertion/refinement.',
    },
    'C07': {
        'text': 'split_curve / split_surface_u|v at any interior parameter and decompose_curve / decompose_surface(u|v|uv): every piece equals the original under the affine map of its domain for all local parameters, nets, weights; input unmodified; domain ends rejected; piece count/order/Bezier knot vectors as specified.',
        'note': COMMON_NOTE + 'Bounds: curves p<=3 (4), surfaces to (3,2) with unequal degrees and >=2 interior knots; snap-zone precondition on the split parameter.',
    },
    'C16': {
        'text': 'lu_solve / lu_factor / matrix_inverse / matrix_determinant / matrix_pivot / lu_decomposition satisfy A x = b, A A^-1 = I, Leibniz, genuine permutation, L U = A for ALL symbolic matrices of the stated sizes on every pivoting path; diagonally dominant and collocation matrices always return; two-call histories (memoised identity matrix); vector/matrix helpers, binomial, linspace, frange equal their definitions.',
        'note': COMMON_NOTE + 'Bounds: n<=3 (4 for lu_solve), pivoting routines n=3 partly concrete in quick; results claimed only when a result is returned. Known finding: matrix_determinant on 3x3 with a zero pivot after static pivoting.',
    },
    'C17': {
        'text': 'find_span_func linear vs binary, evaluator default vs alternative, normalize_kv True vs False under a SYMBOLIC affine knot range (alpha>0, beta), all give identical points/derivatives (scaled by alpha^-k) for all parameters/nets/weights; the lru_cache maxsize expressions extracted from the current source are checked by CrossHair for every decimal GEOMDL_CACHE_SIZE (or unset), plus symbolic C04/C06/C16 runs in subprocesses under {unset,1,16,1024}.',
        'note': COMMON_NOTE + 'num_procs (multiprocessing schedules) is NOT covered by this technique. CrossHair verdict trusted for the str->int conversion; Bounds: curves p<=3, surfaces degrees<=2 (3,2), one volume.',
        'technique': 'bounded symbolic execution + z3 (pairs of configurations); CrossHair symbolic execution of the AST-extracted lru_cache maxsize expressions over a symbolic environment string',
    },
    'C19': {
        'text': '__eq__/__ne__ executed on pairs that differ in exactly one component by a symbolic delta (every homogeneous coordinate, weight, knot) or in a discrete component (degree, size, kind, rationality, dimension): equal only if |delta| < 1e-3, unequal only if delta != 0, symmetric, reflexive, deep copies equal.',
        'note': COMMON_NOTE + 'The property leaves the tolerance open; 1e-3 is demanded as an upper bound on it. Shapes: curve p2, surface (1,2), volume (1,1,1) (+ larger in thorough).',
    },
}

_TODO = 'check not built yet in this session (work in progress, see DESIGN.md section 4)'
NOT_APPLICABLE = {('C%02d' % i): _TODO for i in range(1, 21) if ('C%02d' % i) not in CHECKS}

NOTES = ('All checks: exit 0 = every path explored, every obligation unsat-discharged; exit 1 = VIOLATION (replayed in floats); '
         'exit 2 = inconclusive/harness error (solver unknown, timeout, non-reproducing model). Known genuine defects are '
         'listed in known_findings.json.')
