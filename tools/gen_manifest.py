#!/usr/bin/env python3
"""Regenerates /verif/MANIFEST.json from the table below (keeps it schema-valid at all times)."""
import json, os, sys
VERIF = os.path.dirname(os.path.dirname(os.path.abspath(__file__)))
sys.path.insert(0, VERIF)
from tools.manifest_table import CHECKS, NOT_APPLICABLE, NOTES

def main():
    checks = []
    for pid, c in sorted(CHECKS.items()):
        checks.append({
            'property_id': pid,
            'quick_cmd': 'python3-vt -m sx.run %s --tier quick' % pid,
            'thorough_cmd': 'python3-vt -m sx.run %s --tier thorough' % pid,
            'evidence_file': 'evidence/%s.json' % pid,
            'replay_cmd_template': 'python3-vt -m sx.replay {path}',
            'engine': 'sx',
            'level_claimed': {'category': 'other', 'text': c['text'], 'design_ref': 'DESIGN.md section 4, %s' % pid},
            'level_note': c['note'],
            'technique': c.get('technique', 'bounded symbolic execution of the real geomdl code (rational-function proxies) + z3 (QF_LRA/QF_NRA) per path; counterexamples replayed in floats'),
        })
    m = {
        'version': 1,
        'setup_cmd': 'python3-vt -c "import z3, fractions; print(\'z3\', z3.get_version_string())" && PYTHONPATH=/repo python3-vt -c "import geomdl; print(\'geomdl\', geomdl.__version__, geomdl.__file__)"',
        'hooks': {
            'guard': 'ORBINGOL_NURBS_PYTHON_VERIF',
            'enable': 'no source hooks are needed: the checks inject float/math/print shims as module attributes of the imported geomdl modules at run time (sx/core.py install_shims); /repo is imported from its working tree on every run',
            'baseline_off_cmd': 'cd /repo && /venv/bin/python -m pytest -ra -q -p no:cacheprovider --timeout=900 --continue-on-collection-errors tests',
            'source_commits': [],
            'add_only': True,
        },
        'engines': [{'name': 'sx', 'path': 'sx/', 'serves_properties': sorted(CHECKS),
                     'kind_free_text': 'symbolic execution of the real Python code through exact rational-function number proxies; z3 decides every branch and obligation; DFS over decision prefixes; float replay of counterexamples'}],
        'checks': checks,
        'notes': NOTES,
        'not_applicable': [{'property_id': k, 'reason': v} for k, v in sorted(NOT_APPLICABLE.items())],
    }
    json.dump(m, open(os.path.join(VERIF, 'MANIFEST.json'), 'w'), indent=1)
    try:
        import jsonschema
        jsonschema.validate(m, json.load(open('/root/.vp/MANIFEST.schema.json')))
        print('MANIFEST.json valid; %d checks, %d not_applicable' % (len(checks), len(m['not_applicable'])))
    except ImportError:
        print('written (jsonschema not available to validate)')

if __name__ == '__main__':
    main()
