#!/bin/bash
# fix_matrix.sh : for every "fixed:" entry of known_findings.json, run the property's quick check against the PARENT of the
# fix commit (scratch worktree, SX_REPO) and report whether the violation is reported again there.
cd /verif
python3 - <<'PY' > /tmp/fix_list.txt
import json,re
k=json.load(open('/verif/known_findings.json'))
for f in k['fixed']:
    m=re.match(r'fixed: property=(C\d+) ([0-9a-f]+) (.*)', f)
    print(m.group(1), m.group(2))
PY
out=seeded/FIXES.md
echo "| property | fix commit | quick check on the parent of the fix | " > $out
echo "|---|---|---|" >> $out
while read p sha; do
  WT=$(mktemp -d /tmp/fixwt-XXXXXX); rmdir $WT
  git -C /repo worktree add -q --detach $WT ${sha}~1 || continue
  SX_REPO=$WT timeout 3000 python3-vt -m sx.run $p --tier quick --no-evidence > /tmp/fix_${p}_${sha}.log 2>&1; rc=$?
  git -C /repo worktree remove --force $WT
  n=$(grep -c '^VIOLATION' /tmp/fix_${p}_${sha}.log)
  first=$(grep '^VIOLATION' -A1 /tmp/fix_${p}_${sha}.log | sed -n 2p | cut -c1-150 | tr '|' '/')
  echo "| $p | $sha | exit $rc, $n VIOLATION lines; $first |" >> $out
  echo "$p $sha exit=$rc nviol=$n"
done < /tmp/fix_list.txt
