#!/bin/bash
# usage: verify_seed.sh <dir with patch.diff demo.py meta.json> -> confirms in a scratch worktree of /repo HEAD
set -u
D=$(realpath "$1"); WT=$(mktemp -d /tmp/vseed-XXXXXX); rmdir $WT
git -C /repo worktree add -q --detach $WT HEAD || exit 9
cd $WT
PYTHONPATH=$WT timeout 600 /venv/bin/python $D/demo.py >/dev/null 2>&1; clean=$?
git apply $D/patch.diff; ap=$?
PYTHONPATH=$WT timeout 600 /venv/bin/python $D/demo.py >/dev/null 2>&1; patched=$?
suite=$(PYTHONPATH=$WT timeout 900 /venv/bin/python -m pytest -q -p no:cacheprovider --timeout=900 tests --ignore=tests/test_visualization.py 2>&1 | tail -1)
cd /; git -C /repo worktree remove --force $WT
echo "$(basename $(dirname $D))/$(basename $D): apply=$ap demo_clean_exit=$clean demo_patched_exit=$patched suite: $suite"
if [ $ap -eq 0 ] && [ $clean -eq 0 ] && [ $patched -ne 0 ] && echo "$suite" | grep -q "222 passed"; then echo CONFIRMED; exit 0; else echo REJECTED; exit 1; fi
