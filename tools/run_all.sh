#!/bin/bash
# run_all.sh [tier] [props...] : runs the registered checks (writes evidence), prints one line each
T=${1:-quick}; shift
PROPS=${@:-C01 C02 C03 C04 C05 C06 C07 C08 C09 C10 C11 C12 C13 C14 C15 C16 C17 C18 C19 C20}
cd "$(dirname "$0")/.."
for p in $PROPS; do
  [ -f sx/props/$(echo $p | tr A-Z a-z).py ] || continue
  s=$(date +%s)
  python3-vt -m sx.run $p --tier $T > /tmp/run_$p.$T.log 2>&1; rc=$?
  echo "$p exit=$rc $(($(date +%s)-s))s $(tail -1 /tmp/run_$p.$T.log | cut -c1-150)"
done
