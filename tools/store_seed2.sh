#!/bin/bash
# store_seed2.sh <PROP> <offset> : verify and copy /tmp/wt-<PROP>/_out/{1,2} to seeded/<PROP>-(k+offset); remove worktree
id=$1; off=$2
for k in 1 2; do
  [ -d /tmp/wt-$id/_out/$k ] || continue
  r=$(/verif/tools/verify_seed.sh /tmp/wt-$id/_out/$k | tail -1)
  n=$((k+off)); echo "$id-$n $r"
  if [ "$r" = "CONFIRMED" ]; then d=/verif/seeded/$id-$n; mkdir -p $d; cp /tmp/wt-$id/_out/$k/patch.diff /tmp/wt-$id/_out/$k/demo.py /tmp/wt-$id/_out/$k/meta.json $d/
  python3 - $d <<'PY'
import json,sys
p=sys.argv[1]+'/meta.json'; m=json.load(open(p))
m['confirmed_by_me']='tools/verify_seed.sh in a scratch worktree of /repo HEAD: patch applies, demo passes clean (exit 0), demo fails patched (exit!=0), test-suite 222 passed with the patch'
json.dump(m,open(p,'w'),indent=1)
PY
  fi
done
git -C /repo worktree remove --force /tmp/wt-$id
